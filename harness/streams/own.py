"""The `own` stream (C15): ownership / aliasing / immutability histories."""
import os
import sys

sys.path.insert(0, os.path.dirname(os.path.dirname(os.path.abspath(__file__))))

MODULE = "own"
ADAPTER = "own_impl.py"

RO_PAIR = ["eq2", "inflate", "fdn", "cc", "sim", "jac", "cont", "iu", "and", "or", "fds", "search", "searchc", "prefetch", "gather", "gatherm", "gatherm",
           "compare", "comparem", "manifest", "save", "savem", "ani", "ang", "sigcopy", "sigcopym", "selview"]
RO_ONE = ["seqhashes", "getters", "hashesset", "cac", "md5", "hashes", "pickle", "save", "manifest", "sigcopy", "sigcopym", "selview"]
MUTATORS = ["add", "addab", "addmany", "rm", "clear", "merge", "setab", "settrack", "addseq", "addprot"]


NAMES = ["a", "b", "c", "d", "e", "-"]
FNAMES = ["fa", "fb", "-"]
SIG_MUT = ["sname", "sfile", "ssetmh", "saddseq", "saddprot"]
SIG_COPY = ["stomut", "stofrozen", "scopy", "spickle", "supdflat", "supdname", "sgatherinit"]
SIG_RO = ["md5", "eq", "sim", "save", "pickle", "copies", "mhmut", "compare", "insertinto", "insertinto", "anis"]
VIEW_RO_Q = ["search", "searchc", "prefetch", "best", "gather", "gatheri", "cgather", "searchab", "results", "results", "interleave"]
VIEW_RO_0 = ["sigs", "locs", "manifest", "picklist"]
SAVE_ANY = ["saveto0", "saveto1", "saveto2", "saveto3", "savesig"]       # (`save` is refused by most kinds: NotImplementedError)
SAVE_BY_KIND = {"vsbt": ["save", "save", "savefs", "savefs"], "vsbtload": ["save", "savefs"], "vlinear": ["savesig", "savesig"],
                "vlca": ["lcasave0", "lcasave1"], "vlcaload0": ["lcasave0", "lcasave1"],
                "vzip1": ["mfsave0", "mfsave1"], "vmulti": ["mfsave0", "mfsave1"], "vstandalone": ["mfsave0", "mfsave1"],
                "vsqlite": ["mfsave0", "mfsave1"], "vlcaload1": ["mfsave0", "mfsave1"]}


def _seq(rng):
    n = rng.randint(21, 30)
    s = [rng.choice("ACGT") for _ in range(n)]
    r = rng.random()
    if r < 0.12:
        s[rng.randrange(n)] = "X"
    elif r < 0.2:
        s[rng.randrange(n)] = "N"
    elif r < 0.25:
        s = s[:rng.randint(1, 20)]
    return "".join(s)


def _kws(rng, scaled):
    keys = rng.sample(["ksize", "moltype", "scaled", "num", "abund", "containment"], rng.choice([1, 1, 1, 2, 2, 3]))
    out = []
    for k in keys:
        if k == "ksize":
            v = rng.choice(["21", "21", "21", "31", "N"])
        elif k == "moltype":
            v = rng.choice(["0", "0", "0", "1", "N"])
        elif k == "scaled":
            v = rng.choice([str(scaled), str(scaled), str(scaled * 2), "0", "N"])
        elif k == "num":
            v = rng.choice(["0", "0", "500", "N"])
        else:
            v = rng.choice(["0", "1", "1", "N"])
        out.append(f"{k}={v}")
    return " ".join(out)


def gen_obj_case(rng, flavour):
    """flavours 'sigs' (signature objects), 'views' (copying collection views), 'inplace' (SBT / LCA_Database next
    to the copying kinds): histories over the three object layers"""
    lines = []
    scaled = rng.choice([1, 1, 1, 2, 2, 10])
    M = (2 ** 64 - 1) if scaled == 1 else int(2.0 ** 64 / scaled)
    pool = sorted({rng.randint(0, M) for _ in range(rng.randint(4, 10))} | {0, M})
    hv = lambda: rng.choice(pool)
    nh = rng.randint(2, 4)
    tracks = {}
    for h in range(nh):
        tr = rng.random() < (0.25 if flavour == "disk" else 0.5)
        tracks[str(h)] = tr
        lines.append(f"new {h} 0 {scaled} {int(tr)}")
        k = rng.choice([0, 1, 2, 3, 4, 5, 6, 6])
        if k:
            lines.append(f"addmany {h} " + " ".join(str(hv()) for _ in range(k)))
    mhs = list(range(nh))
    nmh = nh
    sigs, views = [], []
    ck, nmof = {}, {}       # best-effort bookkeeping: which sketch a signature's content came from, and its name
    uniq = [0]

    def fresh_key():
        uniq[0] += 1
        return ("u", uniq[0])

    def track(line):
        w = line.split()
        o = w[0]
        if o == "snew":
            ck[int(w[1])], nmof[int(w[1])] = ("mh", w[2]), w[3]
        elif o in ("stomut", "stofrozen", "scopy", "spickle", "supdflat", "sgatherinit"):
            ck[int(w[1])], nmof[int(w[1])] = ck.get(int(w[2]), fresh_key()), nmof.get(int(w[2]), "-")
        elif o == "supdname":
            ck[int(w[1])], nmof[int(w[1])] = ck.get(int(w[2]), fresh_key()), w[3]
        elif o == "ssetmh":
            ck[int(w[1])] = ("mh", w[2])
        elif o in ("saddseq",):
            ck[int(w[1])] = fresh_key()
        elif o == "sname":
            nmof[int(w[1])] = w[2]
        elif o == "vget":
            ck[int(w[1])], nmof[int(w[1])] = fresh_key(), "-"
        elif o in ("add", "addmany", "clear", "rm", "merge"):
            pass
        return line
    ns = nv = 0
    names = NAMES[:]
    rng.shuffle(names)
    for h in range(rng.randint(2, 4)):
        nm = names[h % len(names)] if flavour != "sigs" or rng.random() < 0.8 else rng.choice(NAMES)
        lines.append(track(f"snew {ns} {rng.choice(mhs)} {nm} {rng.choice(FNAMES)}"))
        sigs.append(ns)
        ns += 1
        if rng.random() < 0.4:
            if rng.random() < 0.5:
                lines.append(f"sintofrozen {ns - 1}")
            else:
                lines.append(track(f"stofrozen {ns} {ns - 1}"))
                sigs.append(ns)
                ns += 1
    S = lambda: rng.choice(sigs)

    def some_sigs(lo, hi, distinct=False, named=False, flat=False):
        k = rng.randint(lo, min(hi, len(sigs)))
        if not distinct and not named:
            return " ".join(map(str, rng.sample(sigs, k)))
        # collections written to disk want pairwise different hash lists, LCA databases different non-empty names
        # (anything else is answered `bad-op` by both sides): choose accordingly, most of the time
        out, keys, names = [], set(), set()
        for x in rng.sample(sigs, len(sigs)):
            if len(out) >= max(k, 1):
                break
            if rng.random() < 0.9:
                if distinct and ck.get(x) in keys:
                    continue
                if named and (nmof.get(x, "-") == "-" or nmof.get(x) in names):
                    continue
                if flat and ck.get(x, ("u",))[0] == "mh" and tracks.get(ck[x][1], False):
                    continue
            out.append(x)
            keys.add(ck.get(x))
            names.add(nmof.get(x, "-"))
        return " ".join(map(str, out or [rng.choice(sigs)]))

    def sig_op():
        nonlocal ns, nmh
        r = rng.random()
        if r < 0.34:
            op = rng.choice(SIG_MUT + ["sname", "ssetmh", "saddseq"])
            if op == "sname":
                return f"sname {S()} {rng.choice(NAMES)}"
            if op == "sfile":
                return f"sfile {S()} {rng.choice(FNAMES)}"
            if op == "ssetmh":
                return f"ssetmh {S()} {rng.choice(mhs)}"
            if op == "saddseq":
                return f"saddseq {S()} {rng.randint(0, 1)} {_seq(rng)}"
            return f"saddprot {S()} {_seq(rng)}"
        if r < 0.62:
            op = rng.choice(SIG_COPY)
            ns += 1
            sigs.append(ns - 1)
            if op == "supdname":
                return f"supdname {ns - 1} {rng.choice(sigs[:-1])} {rng.choice(NAMES)}"
            return f"{op} {ns - 1} {rng.choice(sigs[:-1])}"
        if r < 0.68:
            return f"sintofrozen {S()}"
        if r < 0.78:
            nmh += 1
            mhs.append(nmh - 1)
            if rng.random() < 0.6:
                return f"smh {nmh - 1} {S()}"
            return f"scg {nmh - 1} {S()} {some_sigs(0, 3)}".rstrip()
        if r < 0.9:
            return f"sro {rng.choice(SIG_RO)} {S()}" + (f" {S()}" if rng.random() < 0.7 else "")
        # the sketch layer underneath: mutate (or try to) a sketch a signature was built from / handed out
        h = rng.choice(mhs)
        op = rng.choice(["add", "addmany", "clear", "rm", "tomut", "merge", "addseq"])
        if op == "addseq":
            return f"addseq {h} {rng.randint(0, 1)} {_seq(rng)}"
        if op == "add":
            return f"add {h} {hv()}"
        if op == "addmany":
            return f"addmany {h} {hv()} {hv()}"
        if op == "clear":
            return f"clear {h}"
        if op == "rm":
            return f"rm {h} {hv()}"
        if op == "merge":
            return f"merge {h} {rng.choice(mhs)}"
        nmh += 1
        mhs.append(nmh - 1)
        return f"tomut {nmh - 1} {h}"

    def new_view():
        nonlocal nv
        kinds = ["vlinear", "vlinear", "vlazy", "vlazy", "vzip0", "vzip1", "vmulti", "vmulti", "vstandalone",
                 "vzipg1", "vzipg1", "vzipg0"]
        if flavour == "inplace":
            kinds = ["vsbt", "vsbt", "vlca", "vlca", "vlinear", "vzip1"]
        if flavour == "disk":
            kinds = ["vsbtload", "vsbtload", "vsbtload", "vsqlite", "vsqlite", "vlcaload0", "vlcaload1", "vlcaload1", "vsbt", "vlinear",
                     "vzipg1", "vstandalone"]
        k = rng.choice(kinds)
        lin = [v for v, kk in views if kk == "vlinear"]
        if k in ("vlazy", "vmulti") and not lin:
            k = "vlinear"
        nv += 1
        views.append((nv - 1, k))
        if k == "vlazy":
            return f"vlazy {nv - 1} {rng.choice(lin)}"
        if k == "vmulti":
            return f"vmulti {nv - 1} " + " ".join(map(str, rng.sample(lin, rng.randint(1, min(2, len(lin))))))
        if k in ("vzip0", "vzip1"):
            return f"vzip {nv - 1} {k[-1]} {some_sigs(1, 4, distinct=True)}"
        if k in ("vzipg0", "vzipg1"):
            views[-1] = (nv - 1, "vzip" + k[-1])
            return f"vzipg {nv - 1} {k[-1]} {rng.choice([2, 2, 3, 4])} {some_sigs(2, 5, distinct=True)}"
        if k == "vsbtload":
            return f"vsbtload {nv - 1} {rng.randint(0, 1)} {rng.choice([0, 1, 1, 2])} {some_sigs(1, 4, distinct=True)}"
        if k == "vsqlite":
            return f"vsqlite {nv - 1} {some_sigs(1, 4, distinct=True, flat=True)}"
        if k in ("vlcaload0", "vlcaload1"):
            return f"vlcaload {nv - 1} {k[-1]} {some_sigs(1, 4, named=True)}"
        if k == "vstandalone":
            return f"vstandalone {nv - 1} {some_sigs(1, 4, distinct=True)}"
        if k == "vlca":
            return f"vlca {nv - 1} {some_sigs(1, 4, named=True)}"
        return f"{k} {nv - 1} {some_sigs(0 if k == 'vlinear' else 1, 4)}".rstrip()

    ORDERED = ("vlinear", "vlazy", "vmulti", "vzip0", "vzip1", "vstandalone", "vsqlite")

    def from_views():
        """constructors that take EXISTING views as input (and may only read them)"""
        nonlocal nv
        cands = [(x, kk) for x, kk in views if kk in ORDERED]
        if not cands:
            return new_view()
        x, kk = rng.choice(cands)
        r = rng.random()
        nv += 1
        if r < 0.5:
            ins = [rng.choice(cands) for _ in range(rng.choice([1, 1, 2, 2, 3]))]
            if rng.random() < 0.5:
                multis = [c for c in cands if c[1] == "vmulti"]
                if multis:
                    ins[0] = rng.choice(multis)          # a live MultiIndex as input of another one
            views.append((nv - 1, "vmulti"))
            toks = " ".join(f"{a}:{rng.choice(['-', '-', 'la', 'lb'])}" for a, _ in ins)
            return f"vmultiof {nv - 1} {rng.randint(0, 1)} {toks}"
        if r < 0.7:
            kind = rng.choice([0, 0, 1, 2])
            views.append((nv - 1, ["vlinear", "vsbt", "vlca"][kind]))
            return f"vfrom {nv - 1} {kind} {x}"
        if r < 0.8:
            st = [a for a, k2 in views if k2 == "vstandalone"]
            if st:
                views.append((nv - 1, "vstandalone"))
                return f"vstandof {nv - 1} {rng.choice(st)}"
        views.append((nv - 1, "vmulti"))
        return f"vmpath {nv - 1} {rng.randint(0, 2)} {x}"

    def view_op():
        nonlocal nv, ns
        if not views or (len(views) < 4 and rng.random() < 0.3):
            return new_view()
        if rng.random() < 0.12:
            return from_views()
        v, k = rng.choice(views)
        r = rng.random()
        if r < 0.38:
            nv += 1
            views.append((nv - 1, k if k not in ("vzip0", "vzip1") else k))
            if k in ("vsbt", "vlca", "vsbtload", "vlcaload0") and rng.random() < 0.6:
                return f"vselpick {nv - 1} {v} " + " ".join(rng.sample([n for n in NAMES if n != "-"], rng.randint(0, 3)))
            return f"vsel {nv - 1} {v} {_kws(rng, scaled)}"
        if r < 0.5:
            if k in ("vsbtload", "vsqlite"):       # insertion into these is outside the modelled domain
                return f"vro {rng.choice(VIEW_RO_Q[:-1])} {v} {S()}"
            return f"vinsert {v} {S()}"
        if r < 0.62:
            cands = [x for x, kk in views if kk not in ("vsbt", "vlca", "vsbtload", "vlcaload0", "vlcaload1")]
            if not cands:
                return f"vro {rng.choice(VIEW_RO_Q[:-1])} {v} {S()}"
            ns += 1
            sigs.append(ns - 1)
            return f"vget {ns - 1} {rng.choice(cands)} {rng.choice([0, 0, 0, 0, 1, 1, 2])}"
        if r < 0.85:
            rr = rng.random()
            mfv = [x for x, kk in views if kk in ("vzip1", "vmulti", "vstandalone", "vsqlite", "vlcaload1", "vsbtload")]
            if mfv and rng.random() < 0.22:
                # read-only calls on the manifests of two views (a + b aliases nothing, membership stays what it was ...)
                a_, b_ = rng.choice(mfv), rng.choice(mfv)
                return f"vmf {rng.choice(['add', 'add', 'add', 'eq', 'in', 'select', 'filter', 'misc', 'iadd'])} {a_} {b_}" + \
                    (f" {S()} {S()}" if rng.random() < 0.5 else "")
            sb = [x for x, kk in views if kk in ("vsbt", "vsbtload")]
            if sb and rng.random() < 0.08:
                return f"vmf combine {rng.choice([x for x, _ in views])} {rng.choice(sb)} {S()}"
            if rng.random() < 0.1:
                recv = rng.choice(mfv) if (mfv and rng.random() < 0.6) else rng.choice([x for x, _ in views])
                return f"vmf {rng.choice(['wrap', 'getmf', 'getmf', 'helpers', 'helpers'])} {recv} {rng.choice([x for x, _ in views])}"
            if rr < 0.04:
                return f"sro insertinto {S()}" + (f" {S()}" if rng.random() < 0.5 else "")
            if rr < 0.3:
                # a save is a read-only call on the collection it is given
                nm = rng.choice(SAVE_BY_KIND.get(k, []) * 2 + SAVE_ANY)
                first = f"vro {nm} {v}" + (f" {S()}" if rng.random() < 0.7 else "")
                if k in ("vlca", "vlcaload0", "vsbt", "vlinear") and rng.random() < 0.5:
                    # a save must leave the collection usable: insert into it right afterwards
                    return [first, f"vinsert {v} {S()}", f"vro sigs {v}"]
                return first
            if rr < 0.55:
                return f"vro {rng.choice(VIEW_RO_0)} {v}"
            name = rng.choice(VIEW_RO_Q)
            return f"vro {name} {v} {S()}" + (f" {S()}" if name == "interleave" else "")
        return sig_op()

    n_ops = rng.randint(6, 28)
    if flavour != "sigs":
        for _ in range(rng.randint(1, 3)):
            lines.append(new_view())
    for _ in range(n_ops):
        nxt_ops = sig_op() if flavour == "sigs" else view_op()
        for ln in ([nxt_ops] if isinstance(nxt_ops, str) else nxt_ops):
            lines.append(track(ln))
    if flavour == "sigs":
        # the pickle-protocol entry point called on an existing object: here only on signatures the generator knows
        # to be mutable (created by snew / stomut / spickle / sgatherinit and never frozen since).  On a FROZEN
        # target the call destroys the object (finding C15.1): that case lives in corpus/C15/ and is replayed by every run.
        mutable = set()
        for ln in lines:
            w = ln.split()
            if w[0] in ("snew", "stomut", "spickle", "sgatherinit"):
                mutable.add(int(w[1]))
            elif w[0] in ("sintofrozen",):
                mutable.discard(int(w[1]))
            elif w[0] in ("stofrozen", "scopy", "supdflat", "supdname", "vget"):
                mutable.discard(int(w[1]))
        out = []
        for ln in lines:
            out.append(ln)
        if mutable and rng.random() < 0.5:
            # insert after the last line that mentions the chosen handle as a result, keeping it mutable: simplest is at the end
            tgt = rng.choice(sorted(mutable))
            out.append(f"ssetstate {tgt} {rng.choice(mhs)} {rng.choice(NAMES)} {rng.choice(FNAMES)}")
            out.append(f"sro md5 {tgt}")
        lines = out
    return lines


def gen_case(rng, flavour):
    if flavour in ("sigs", "views", "inplace", "disk"):
        return gen_obj_case(rng, flavour)
    return gen_mh_case(rng, flavour)


def gen_mh_case(rng, flavour):
    """flavour 'frozen': many mutator attempts on frozen objects; 'readonly': many read-only calls
    between digests; 'alias': copies / flatten / downsample chains followed by mutation of the copy"""
    lines = []
    scaled = rng.choice([1, 1, 2, 10, 1000])
    M = (2 ** 64 - 1) if scaled == 1 else int(2.0 ** 64 / scaled)
    pool = sorted({rng.randint(0, M) for _ in range(rng.randint(3, 10))} | {0, M})
    hv = lambda: rng.choice(pool)
    nh = rng.randint(2, 3)
    use_num = rng.random() < 0.12          # `num` sketches (flatten_and_downsample_num, downsample(num=), refusals of scaled-only calls)
    for h in range(nh):
        tr = rng.random() < 0.6
        if use_num:
            lines.append(f"new {h} {rng.choice([3, 3, 5])} 0 {int(tr)}")
        else:
            lines.append(f"new {h} 0 {scaled} {int(tr)}")
        k = rng.randint(0, 8)
        if k:
            lines.append(f"addmany {h} " + " ".join(str(hv()) for _ in range(k)))
    live = list(range(nh))
    nxt = nh
    for _ in range(rng.randint(4, 30)):
        r = rng.random()
        h = rng.choice(live)
        if flavour == "readonly" and r < 0.55 or r < 0.25:
            if rng.random() < 0.25:
                lines.append(f"ro {rng.choice(RO_ONE)} {h}")
            else:
                lines.append(f"ro {rng.choice(RO_PAIR)} {h} {rng.choice(live)}" + (f" {rng.choice(live)}" if rng.random() < 0.3 else ""))
        elif flavour == "alias" and r < 0.6 or r < 0.45:
            if nxt >= 12:
                continue
            op = rng.choice(["tomut", "tofrozen", "copy", "flat", "down", "sigmh", "plus", "inter", "intofrozen"])
            if op == "intofrozen":
                lines.append(f"intofrozen {h}")
                continue
            if op == "down":
                lines.append(f"down {nxt} {h} {rng.choice([scaled, scaled, scaled * 2, scaled + 1])}")
            elif op in ("plus", "inter"):
                lines.append(f"{op} {nxt} {h} {rng.choice(live)}")
            else:
                lines.append(f"{op} {nxt} {h}")
            live.append(nxt)
            nxt += 1
        else:
            op = rng.choice(MUTATORS)
            if op == "add":
                lines.append(f"add {h} {hv()}")
            elif op == "addab":
                lines.append(f"addab {h} {hv()} {rng.choice([0, 1, 2, 5])}")
            elif op == "addmany":
                lines.append(f"addmany {h} " + " ".join(str(hv()) for _ in range(rng.randint(1, 4))))
            elif op == "rm":
                lines.append(f"rm {h} {hv()} {hv()}")
            elif op == "clear":
                lines.append(f"clear {h}")
            elif op == "merge":
                lines.append(f"merge {h} {rng.choice(live)}")
            elif op == "setab":
                keys = rng.sample(pool, min(len(pool), rng.randint(0, 3)))
                lines.append(f"setab {h} {rng.randint(0, 1)} " + " ".join(f"{k}:{rng.choice([0, 1, 3])}" for k in keys))
            elif op == "addseq":
                lines.append(f"addseq {h} {rng.randint(0, 1)} {_seq(rng) if rng.random() < 0.7 else _seq(rng)[:21].ljust(21, 'A')}")
            elif op == "addprot":
                lines.append(f"addprot {h} {_seq(rng)}")
            else:
                lines.append(f"settrack {h} {rng.randint(0, 1)}")
    return lines


MH_RESULT = {"tomut", "tofrozen", "copy", "flat", "down", "sigmh", "plus", "inter", "new", "smh", "scg"}
SIG_RESULT = {"snew", "stomut", "stofrozen", "scopy", "spickle", "supdflat", "supdname", "sgatherinit", "vget"}
VIEW_RESULT = {"vlinear", "vlazy", "vzip", "vmulti", "vstandalone", "vsbt", "vlca", "vsel", "vselpick",
               "vsbtload", "vsqlite", "vlcaload", "vzipg", "vmultiof", "vfrom", "vstandof", "vmpath"}
MH_RECV = {"add", "addab", "addmany", "rm", "clear", "merge", "setab", "settrack", "intofrozen", "addseq", "addprot"}
SIG_RECV = {"ssetmh", "sname", "sfile", "saddseq", "saddprot", "ssetstate", "sintofrozen"}
SIG_FRESH = {"stomut", "spickle", "supdflat", "supdname", "sgatherinit"}
INPLACE = {"sbt", "lca", "sbtdisk"}
DISK = {"zipnm", "zipm", "standalone", "sqlite", "lcasql"}


def parse(obs):
    """'ok | 0@0=f:num:mh:mins:ab s1@1=f:name:file:... v2@2=kind;own;[sigs]'
    -> (res, {'m': {h: (cls, frozen, cell)}, 's': {h: (cls, frozen, cell)}, 'v': {h: (cls, kind, text)}})"""
    if " | " not in obs and not obs.endswith(" |"):
        return obs, None
    res, _, rest = obs.partition(" | ")
    tab = {"m": {}, "s": {}, "v": {}, "A": "ok", "K": "ok"}
    for item in rest.split():
        if item.startswith("A=") or item.startswith("K="):
            tab[item[0]] = item[2:]
            continue
        hc, _, cell = item.partition("=")
        h, _, cls = hc.partition("@")
        if h.startswith("s"):
            tab["s"][int(h[1:])] = (cls, cell[:1] == "1", cell)
        elif h.startswith("v"):
            tab["v"][int(h[1:])] = (cls, cell.split(";")[0], cell)
        else:
            tab["m"][int(h)] = (cls, cell[:1] == "1", cell)
    return res.strip(), tab


def _norm_view(text, sigs_here, sigs_there):
    """a view item with its membership bits (`in=…`, one per signature handle of the world, ascending) restricted to the
    signature handles that exist in both tables: a NEW signature adds a bit, it does not change the view"""
    parts = text.split(";")
    for k, p in enumerate(parts):
        if p.startswith("in=") and p[3:] not in ("-", "."):
            hs = sorted(sigs_here)
            bits = p[3:]
            if len(bits) == len(hs):
                parts[k] = "in=" + "".join(b for h, b in zip(hs, bits) if h in sigs_there)
        if p.startswith("f=") and _probe_key(sigs_here) != _probe_key(sigs_there):
            parts[k] = "f=*"          # the probe query of the dump is another one: the search answers are not comparable
    return ";".join(parts)


def _probe_key(sigs):
    """(threshold, hashes) of the dump's probe query: the lowest-handle signature that is flat and scaled"""
    for h in sorted(sigs):
        f = sigs[h][2].split(":")
        if len(f) == 7 and f[3] == "0" and f[6] == "-":
            return (f[4], f[5])
    return None


def oracle(case, impl):
    """C15 from the statement, on the implementation's own observations (no model involved):
    * a read-only call (`ro`, `sro`, `vro`) changes nothing and repeats (adapter: RepeatDiffers / InputModified);
    * an object that is frozen (sketch or signature) never changes content again and refuses every mutator;
    * an op changes at most the object it was invoked on (objects identical to it by identity included):
      a copy obtained from to_mutable()/pickle/update()/GatherDatabases of ANY signature, or from
      copy()/to_frozen() of a MUTABLE one, is a different object; `sig.minhash` is a new frozen sketch;
    * a collection view changes only through insert on it (or on the index a lazy view wraps), through select on
      one of the documented IN-PLACE kinds (SBT, LCA_Database), or because a signature object it REFERS to was
      explicitly mutated; select on every other kind returns a new object and leaves its receiver alone;
    * what a loader hands out (signatures read from a zip / a standalone manifest) is frozen."""
    bad = []
    prev = None
    for idx, (op, obs) in enumerate(zip(case, impl)):
        w = op.split()
        res, tab = parse(obs)
        if tab is None:
            continue
        o = w[0]
        if prev is None:
            prev = {"m": {}, "s": {}, "v": {}}
        if tab["A"] != "ok" and (prev.get("A", "ok") == "ok"):
            what = tab["A"].split(":")[0]
            bad.append((idx, "C15:views-disagree:" + what,
                        f"after `{op}` two ways of reading the same object disagree ({tab['A']}): len vs iteration vs .hashes / "
                        "manifest row vs signature / signatures() vs signatures_with_location()"))
        if tab["K"] != "ok" and (prev.get("K", "ok") == "ok"):
            bad.append((idx, "C15:kept-result-changed:" + tab["K"].split(":")[1] if ":" in tab["K"] else "C15:kept-result-changed",
                        f"`{op}` changed a result object an EARLIER call of this case returned ({tab['K']})"))
        if o in ("ro", "sro", "vro", "vmf"):
            if res.startswith("err RepeatDiffers"):
                bad.append((idx, f"C15:repeat-differs:{o}:" + w[1] if o != "ro" else "C15:repeat-differs:" + w[1],
                            f"`{op}`: repeating the same read-only call gave a different result"))
            elif res.startswith("err InputModified") and w[1] == "interleave":
                kind = prev["v"].get(int(w[2]), (None, "?", None))[1] if len(w) > 2 and w[2].isdigit() else "?"
                bad.append((idx, f"C15:repeat-differs:interleaved-search:{kind}",
                            f"`{op}`: while a prefetch() generator on the {kind} collection is only partly consumed, the same search "
                            "on it (or on a view selected from it) fails or answers differently"))
            elif res.startswith("err InputModified"):
                bad.append((idx, f"C15:input-modified:{o}:" + w[1] if o != "ro" else "C15:input-modified:" + w[1],
                            f"`{op}` modified a signature passed to it"))
            elif res.startswith("err ViewChanged") and o == "vmf":
                bad.append((idx, f"C15:view-changed:vmf:{w[1]}",
                            f"`{op}`: a call that only READS the two collections changed what one of them answers"))
            elif res.startswith("err ViewChanged"):
                kind = prev["v"].get(int(w[2]), (None, "?", None))[1] if len(w) > 2 and w[2].isdigit() else "?"
                bad.append((idx, f"C15:view-changed:{kind}-save",
                            f"`{op}`: after the save the saved {kind} collection no longer answers what it answered before"))
            elif res.startswith("err"):
                bad.append((idx, "C15:readonly-raises:" + w[1] + ":" + res[4:], f"`{op}` raised {res[4:]} (second invocation or internal state damage)"))
        rebound = None
        if o in MH_RESULT:
            rebound = ("m", int(w[1]))
        elif o in SIG_RESULT:
            rebound = ("s", int(w[1]))
        elif o in VIEW_RESULT:
            rebound = ("v", int(w[1]))
        recv = None
        if o in MH_RECV:
            recv = ("m", int(w[1]))
        elif o in SIG_RECV:
            recv = ("s", int(w[1]))
        elif o == "vinsert":
            recv = ("v", int(w[1]))
        elif o in ("vsel", "vselpick") and len(w) > 2 and w[2].isdigit():
            recv = ("v", int(w[2]))
        rcls = prev[recv[0]].get(recv[1], (None,))[0] if recv else None
        # --- sketches and signatures: frozen objects are constant, only the receiver may change
        for layer, nm in (("m", "object"), ("s", "sig")):
            for h, (cls, frozen, cell) in tab[layer].items():
                if h not in prev[layer] or rebound == (layer, h):
                    continue
                pcls, pfrozen, pcell = prev[layer][h]
                if cell == pcell:
                    continue
                same_obj = recv is not None and recv[0] == layer and rcls == pcls
                if pfrozen:
                    bad.append((idx, f"C15:frozen-{nm}-changed:" + o,
                                f"`{op}` changed frozen {nm} {h}: {pcell} -> {cell}"))
                elif not same_obj:
                    tag = "bystander-changed" if layer == "m" else "sig-bystander-changed"
                    bad.append((idx, f"C15:{tag}:" + o,
                                f"`{op}` changed {nm} {h}, which is not the object it was invoked on: {pcell} -> {cell}"))
        # --- a mutator invoked on a frozen object must be refused
        if recv is not None and recv[0] in ("m", "s") and recv[1] in prev[recv[0]] and prev[recv[0]][recv[1]][1] \
                and o not in ("intofrozen", "sintofrozen"):
            if not res.startswith("err"):
                changed = tab[recv[0]].get(recv[1], (None, None, None))[2] != prev[recv[0]][recv[1]][2]
                if changed or o != "settrack":
                    tag = "frozen-mutator-accepted" if recv[0] == "m" else "frozen-sig-mutator-accepted"
                    bad.append((idx, f"C15:{tag}:" + o, f"`{op}` on a frozen object was not refused"))
        # --- fresh-copy ops on a mutable source must not alias it
        if o in ("tomut", "copy", "tofrozen", "plus", "inter", "down", "sigmh") and res == "ok":
            r, src = int(w[1]), int(w[2])
            T = tab["m"]
            if r in T and src in T and r != src and T[r][0] == T[src][0] and not T[src][1]:
                bad.append((idx, "C15:copy-aliases-mutable:" + o, f"`{op}` returned the very object it was given although it is mutable"))
        if o in (SIG_FRESH | {"scopy", "stofrozen"}) and res == "ok":
            r, src = int(w[1]), int(w[2])
            S, P = tab["s"], prev["s"]
            if r in S and src in P and r != src and S[r][0] == P[src][0] and (o in SIG_FRESH or not P[src][1]):
                bad.append((idx, "C15:sig-copy-aliases:" + o,
                            f"`{op}` returned the very signature it was given although a new object is promised"))
        if o in ("smh", "scg") and res == "ok":
            r = int(w[1])
            T = tab["m"]
            if r in T:
                if any(h != r and T[h][0] == T[r][0] for h in T):
                    bad.append((idx, "C15:sig-minhash-aliases:" + o, f"`{op}` handed out a sketch object that already existed"))
                if not T[r][1]:
                    bad.append((idx, "C15:sig-minhash-not-frozen:" + o, f"`{op}` handed out a mutable sketch"))
        # --- views
        for h, (cls, kind, text) in tab["v"].items():
            if h not in prev["v"] or rebound == ("v", h):
                continue
            pcls, pkind, ptext = prev["v"][h]
            if _norm_view(text, tab["s"], prev["s"]) == _norm_view(ptext, prev["s"], tab["s"]):
                continue
            is_recv = recv is not None and recv[0] == "v" and rcls == pcls
            wraps_recv = recv is not None and recv[0] == "v" and f";db=v{rcls};" in ";" + ptext
            if o == "vinsert" and (is_recv or wraps_recv):
                continue
            if o in ("vsel", "vselpick") and is_recv and pkind in INPLACE:
                continue            # documented in-place selection
            if o in SIG_RECV:
                continue            # a signature object the view refers to was explicitly mutated
            if o in ("vsel", "vselpick") and is_recv:
                bad.append((idx, "C15:select-changed-receiver:" + pkind,
                            f"`{op}`: select() on a {pkind} view changed the view it was called on: {ptext[:160]} -> {text[:160]}"))
            else:
                bad.append((idx, "C15:view-changed:" + o,
                            f"`{op}` changed collection view {h} ({pkind}), which it was not invoked on: {ptext[:160]} -> {text[:160]}"))
        if o in ("vsel", "vselpick") and res == "ok" and recv is not None and recv[1] in prev["v"]:
            r = int(w[1])
            pkind = prev["v"][recv[1]][1]
            if r in tab["v"]:
                aliases_old = any(tab["v"][r][0] == pc for hh, (pc, _, _) in prev["v"].items() if hh != r)
                if pkind in INPLACE and tab["v"][r][0] != tab["v"].get(recv[1], (None,))[0]:
                    bad.append((idx, "C15:inplace-select-returned-new-object:" + pkind,
                                f"`{op}`: {pkind}.select() is documented to narrow and return the object itself"))
                if pkind not in INPLACE and aliases_old:
                    bad.append((idx, "C15:select-returned-existing-object:" + pkind,
                                f"`{op}`: select() on a {pkind} view returned an object that already existed"))
        if o == "vget" and res == "ok" and len(w) > 2 and w[2].isdigit() and int(w[2]) in prev["v"]:
            pkind = prev["v"][int(w[2])][1]
            r = int(w[1])
            if pkind in DISK and r in tab["s"] and not tab["s"][r][1]:
                bad.append((idx, "C15:loader-handed-out-mutable:" + pkind,
                            f"`{op}`: a signature read from a {pkind} collection is not frozen"))
        prev = tab
    return bad


def nontrivial(case, impl):
    return sum(1 for o in impl if o.startswith("ok |")) >= 4 and \
        any(c.startswith(("ro ", "tofrozen", "sigmh", "s", "v")) for c in case)
