"""The `own` stream (C15): ownership / aliasing / immutability histories."""
import os
import sys

sys.path.insert(0, os.path.dirname(os.path.dirname(os.path.abspath(__file__))))

MODULE = "own"
ADAPTER = "own_impl.py"

RO_PAIR = ["cc", "sim", "jac", "cont", "iu", "and", "or", "fds", "search", "searchc", "prefetch", "gather", "gatherm", "gatherm",
           "compare", "comparem", "manifest", "save", "savem", "ani", "ang", "sigcopy", "sigcopym", "selview"]
RO_ONE = ["md5", "hashes", "pickle", "save", "manifest", "sigcopy", "sigcopym", "selview"]
MUTATORS = ["add", "addab", "addmany", "rm", "clear", "merge", "setab", "settrack"]


def gen_case(rng, flavour):
    """flavour 'frozen': many mutator attempts on frozen objects; 'readonly': many read-only calls
    between digests; 'alias': copies / flatten / downsample chains followed by mutation of the copy"""
    lines = []
    scaled = rng.choice([1, 1, 2, 10, 1000])
    M = (2 ** 64 - 1) if scaled == 1 else int(2.0 ** 64 / scaled)
    pool = sorted({rng.randint(0, M) for _ in range(rng.randint(3, 10))} | {0, M})
    hv = lambda: rng.choice(pool)
    nh = rng.randint(2, 3)
    for h in range(nh):
        tr = rng.random() < 0.6
        lines.append(f"new {h} 0 {scaled} {int(tr)}")
        k = rng.randint(0, 8)
        if k:
            lines.append(f"addmany {h} " + " ".join(str(hv()) for _ in range(k)))
    live = list(range(nh))
    nxt = nh
    for _ in range(rng.randint(4, 30)):
        r = rng.random()
        h = rng.choice(live)
        if flavour == "readonly" and r < 0.55 or r < 0.25:
            if rng.random() < 0.25:
                lines.append(f"ro {rng.choice(RO_ONE)} {h}")
            else:
                lines.append(f"ro {rng.choice(RO_PAIR)} {h} {rng.choice(live)}" + (f" {rng.choice(live)}" if rng.random() < 0.3 else ""))
        elif flavour == "alias" and r < 0.6 or r < 0.45:
            if nxt >= 12:
                continue
            op = rng.choice(["tomut", "tofrozen", "copy", "flat", "down", "sigmh", "plus", "inter", "intofrozen"])
            if op == "intofrozen":
                lines.append(f"intofrozen {h}")
                continue
            if op == "down":
                lines.append(f"down {nxt} {h} {rng.choice([scaled, scaled, scaled * 2, scaled + 1])}")
            elif op in ("plus", "inter"):
                lines.append(f"{op} {nxt} {h} {rng.choice(live)}")
            else:
                lines.append(f"{op} {nxt} {h}")
            live.append(nxt)
            nxt += 1
        else:
            op = rng.choice(MUTATORS)
            if op == "add":
                lines.append(f"add {h} {hv()}")
            elif op == "addab":
                lines.append(f"addab {h} {hv()} {rng.choice([0, 1, 2, 5])}")
            elif op == "addmany":
                lines.append(f"addmany {h} " + " ".join(str(hv()) for _ in range(rng.randint(1, 4))))
            elif op == "rm":
                lines.append(f"rm {h} {hv()} {hv()}")
            elif op == "clear":
                lines.append(f"clear {h}")
            elif op == "merge":
                lines.append(f"merge {h} {rng.choice(live)}")
            elif op == "setab":
                keys = rng.sample(pool, min(len(pool), rng.randint(0, 3)))
                lines.append(f"setab {h} {rng.randint(0, 1)} " + " ".join(f"{k}:{rng.choice([0, 1, 3])}" for k in keys))
            else:
                lines.append(f"settrack {h} {rng.randint(0, 1)}")
    return lines


def parse(obs):
    """'ok | 0@0=f:num:mh:mins:ab 1@1=...' -> (res, {handle: (cls, frozen, content)})"""
    if " | " not in obs and not obs.endswith(" |"):
        return obs, None
    res, _, rest = obs.partition(" | ")
    tab = {}
    for item in rest.split():
        hc, _, cell = item.partition("=")
        h, _, cls = hc.partition("@")
        tab[int(h)] = (cls, cell[0] == "1", cell)
    return res.strip(), tab


def oracle(case, impl):
    """C15 from the statement, on the implementation's own observations (no model involved):
    * a read-only call changes nothing and repeats (adapter reports RepeatDiffers / InputModified);
    * an object that is frozen never changes content again and refuses every mutator;
    * an op changes at most the object it was invoked on (objects identical to it by identity included):
      in particular a copy obtained from to_mutable()/to_frozen()/copy()/+/&/downsample of a MUTABLE
      object is a different object, and mutating one never shows in the other."""
    bad = []
    prev = {}
    for idx, (op, obs) in enumerate(zip(case, impl)):
        w = op.split()
        res, tab = parse(obs)
        if tab is None:
            continue
        o = w[0]
        if o == "ro":
            if res.startswith("err RepeatDiffers"):
                bad.append((idx, "C15:repeat-differs:" + w[1], f"`{op}`: repeating the same read-only call gave a different result"))
            elif res.startswith("err InputModified"):
                bad.append((idx, "C15:input-modified:" + w[1], f"`{op}` modified a signature passed to it"))
            elif res.startswith("err"):
                bad.append((idx, "C15:readonly-raises:" + w[1] + ":" + res[4:], f"`{op}` raised {res[4:]} (second invocation or internal state damage)"))
        recv = None
        if o in ("add", "addab", "addmany", "rm", "clear", "merge", "setab", "settrack", "intofrozen"):
            recv = int(w[1])
        for h, (cls, frozen, cell) in tab.items():
            if h not in prev:
                continue
            pcls, pfrozen, pcell = prev[h]
            rebound = o in ("tomut", "tofrozen", "copy", "flat", "down", "sigmh", "plus", "inter", "new") and int(w[1]) == h
            if rebound:
                continue
            if cell != pcell:
                same_obj = recv is not None and recv in prev and prev[recv][0] == pcls
                if pfrozen:
                    bad.append((idx, "C15:frozen-object-changed:" + o,
                                f"`{op}` changed frozen object {h}: {pcell} -> {cell}"))
                elif not same_obj:
                    bad.append((idx, "C15:bystander-changed:" + o,
                                f"`{op}` changed object {h}, which is not the object it was invoked on: {pcell} -> {cell}"))
        # a mutator invoked on a frozen object must be refused
        if recv is not None and recv in prev and prev[recv][1] and o != "intofrozen":
            if not res.startswith("err"):
                changed = tab.get(recv, (None, None, None))[2] != prev[recv][2]
                if changed or o != "settrack":
                    bad.append((idx, "C15:frozen-mutator-accepted:" + o, f"`{op}` on a frozen object was not refused"))
        # fresh-copy ops on a mutable source must not alias it
        if o in ("tomut", "copy", "tofrozen", "plus", "inter", "down", "sigmh") and res == "ok":
            r, src = int(w[1]), int(w[2])
            if r in tab and src in tab and r != src and tab[r][0] == tab[src][0] and not tab[src][1]:
                bad.append((idx, "C15:copy-aliases-mutable:" + o, f"`{op}` returned the very object it was given although it is mutable"))
        prev = tab
    return bad


def nontrivial(case, impl):
    return sum(1 for o in impl if o.startswith("ok |")) >= 4 and any(c.startswith(("ro ", "tofrozen", "sigmh")) for c in case)
