"""The `nodegraph` correspondence sub-stream (C13): Nodegraph (Bloom filter) handles driven through
the Python class: with_tables size selection, count/get/matches, update (OR), and the byte
format (to_bytes/from_buffer, raw and gzip), plus hand-made images whose table sizes are
multiples of 32 or carry bits beyond the table size.

The oracle states the Bloom laws of C13 on the implementation's observations alone:
no false negatives ever (through count, addmany, update, round trips), update = union
(a merged filter has the image of the filter built from the union), round trip preserves
sizes, occupancy and answers."""
import os
import sys

sys.path.insert(0, os.path.dirname(os.path.dirname(os.path.abspath(__file__))))

U64 = 2 ** 64 - 1
MODULE = "nodegraph"
ADAPTER = "nodegraph_impl.py"

SIZES = [0, 1, 2, 3, 4, 5, 6, 7, 8, 9, 12, 13, 30, 32, 33, 34, 63, 64, 65, 66, 100, 257, 1000, 1000, 4097]


def le(n, v):
    return [(v >> (8 * i)) & 255 for i in range(n)]


def raw_image(rng):
    """a well-formed uncompressed image with arbitrary table sizes and arbitrary payload bits"""
    nt = rng.randint(0, 3)
    ks = rng.choice([1, 21, 31])
    occ = rng.randint(0, 40)
    img = [0x4f, 0x58, 0x4c, 0x49, 4, 2] + le(4, ks) + [nt] + le(8, occ)
    for _ in range(nt):
        size = rng.choice([1, 5, 8, 10, 16, 24, 31, 32, 33, 40, 63, 64, 65, 96, 0])
        img += le(8, size)
        nbytes = size // 8 + 1
        mode = rng.random()
        if mode < 0.3:
            payload = [255] * nbytes
        elif mode < 0.5:
            payload = [0] * nbytes
        else:
            payload = [rng.randint(0, 255) for _ in range(nbytes)]
        img += payload
    r = rng.random()
    if r < 0.2:
        img += [rng.randint(0, 255) for _ in range(rng.randint(1, 5))]      # trailing bytes are ignored
    elif r < 0.3 and len(img) > 20:
        img = img[:rng.randint(19, len(img) - 1)]                          # truncated after the header: an I/O error
    return img


def gen_case(rng, flavour):
    lines = []
    big = flavour == "big"
    size = 100000 if big else rng.choice(SIZES)
    nt = rng.choice([4, 4, 4, 1, 2, 3, 5, 0])
    ks = rng.choice([1, 21, 31, 2 ** 32 - 1])
    pool = set()
    while len(pool) < rng.randint(3, 25):
        r = rng.random()
        if r < 0.3:
            pool.add(rng.choice([0, 1, 2, U64, U64 - 1, 2 ** 63, 2 ** 32, size, size - 1 if size else 0, 3 * 5 * 7 * 11]))
        elif r < 0.6:
            pool.add(rng.randint(0, 300))
        else:
            pool.add(rng.randint(0, U64))
    pool = sorted(pool)
    nh = rng.randint(2, 4)
    for r in range(nh):
        lines.append(f"new {r} {ks} {size} {nt}")
    hv = lambda: rng.choice(pool)
    nxt = nh
    for _ in range(rng.randint(3, 12 if big else 40)):
        x = rng.random()
        h = rng.randrange(nh)
        if x < 0.18:
            lines.append(f"count {h} {hv()}")
        elif x < 0.36:
            lines.append(f"get {h} {hv()}")
        elif x < 0.40:
            kmer = "".join(rng.choice("ACGT") for _ in range(rng.choice([1, 3, 21, 31, 32])))
            lines.append(f"{rng.choice(['countk', 'getk'])} {h} {kmer}")
        elif x < 0.52:
            k = rng.randint(0, 6)
            lines.append(f"addmany {h} " + " ".join(str(v) for v in sorted(set(hv() for _ in range(k)))))
        elif x < 0.62:
            k = rng.randint(0, 8)
            lines.append(f"matches {h} " + " ".join(str(v) for v in sorted(set(hv() for _ in range(k)))))
        elif x < 0.74:
            lines.append(f"update {h} {rng.randrange(nh)}")
        elif x < 0.80:
            lines.append(f"show {h}")
        elif x < 0.88:
            lines.append(f"bytes {h}")
        elif x < 0.96:
            lines.append(f"rt {h} {rng.randrange(nh)} {rng.choice([0, 1, 1, 5, 9])}")
        elif not big and nxt < 10:
            lines.append(f"loadraw {nxt} " + " ".join(str(b) for b in raw_image(rng)))
            lines.append(f"show {nxt}")
            lines.append(f"get {nxt} {rng.randint(0, 100)}")
            lines.append(f"bytes {nxt}")
            lines.append(f"rt {rng.randrange(nh)} {nxt} {rng.choice([0, 1])}")
            nxt += 1
    # merging = filter of the union: build the union directly and compare images
    if not big or rng.random() < 0.5:
        A = sorted(set(hv() for _ in range(rng.randint(0, 6))))
        B = sorted(set(hv() for _ in range(rng.randint(0, 6))))
        lines += [f"new 10 {ks} {size} {nt}", f"new 11 {ks} {size} {nt}", f"new 12 {ks} {size} {nt}",
                  "addmany 10 " + " ".join(map(str, A)), "addmany 11 " + " ".join(map(str, B)),
                  "addmany 12 " + " ".join(map(str, sorted(set(A) | set(B)))),
                  "update 10 11", "bytes 10", "bytes 12", "show 10", "show 12"]
    return lines


# --------------------------------------------------------------------------
# oracle from the property statement

def khash(kmer):
    """2-bit encoding of a k-mer, the smaller of forward and reverse complement (the published khmer scheme)"""
    fw = {"A": 0, "C": 2, "G": 3, "T": 1}
    rc = {"A": 1, "C": 3, "G": 2, "T": 0}
    f = r = 0
    for c in kmer:
        f = f * 4 + fw[c]
    for c in reversed(kmer):
        r = r * 4 + rc[c]
    return min(f, r)


def oracle(case, impl):
    case = [(f"count {l.split()[1]} {khash(l.split()[2])}" if l.startswith("countk ") else
             f"get {l.split()[1]} {khash(l.split()[2])}" if l.startswith("getk ") else l) for l in case]
    out = []
    known = {}       # handle -> set of hashes that were stored in it (None = unknown content, e.g. loaded raw)
    params = {}      # handle -> (ksize, size, nt) when built by `new`
    pure = {}        # handle -> True while content == exactly `known` applied to a fresh filter
    last_bytes = {}
    shape = {}       # handle -> the "sizes=..." token last printed for it
    for k, (op, obs) in enumerate(zip(case, impl)):
        w = op.split()
        if not w or not obs.startswith("ok"):
            continue
        o = w[0]
        if o == "update":
            # the laws are about filters of one shape (all filters of a tree come from one factory)
            r, s = int(w[1]), int(w[2])
            if shape.get(r) is None or shape.get(r) != shape.get(s):
                known.pop(r, None)
                pure[r] = False
                params[r] = None
                shape[r] = [t for t in obs.split() if t.startswith("sizes=")][0]
                continue
        if o in ("new", "addmany", "update", "show", "rt", "loadraw"):
            tok = [t for t in obs.split() if t.startswith("sizes=")]
            if tok:
                shape[int(w[1])] = tok[0]
        if o == "new":
            r = int(w[1])
            known[r] = set()
            params[r] = tuple(w[2:5])
            pure[r] = True
        elif o == "count":
            r, h = int(w[1]), int(w[2])
            if r in known:
                was = h in known[r]
                if was and obs.split()[1] == "1":
                    out.append((k, "C13:bloom:count-reports-new-for-stored-hash", f"count({h}) reports a new k-mer but {h} was stored before"))
                known[r].add(h)
        elif o == "addmany":
            r = int(w[1])
            if r in known:
                known[r].update(int(x) for x in w[2:])
        elif o == "get":
            r, h = int(w[1]), int(w[2])
            if r in known and h in known[r] and obs.split()[1] != "1":
                out.append((k, "C13:bloom:false-negative", f"get({h}) = 0 although {h} was stored in the filter"))
        elif o == "matches":
            r = int(w[1])
            q = set(int(x) for x in w[2:])
            if r in known and int(obs.split()[1]) < len(q & known[r]):
                out.append((k, "C13:bloom:false-negative", f"matches counts {obs.split()[1]} of {len(q)} hashes, {len(q & known[r])} of them were stored"))
        elif o == "update":
            r, s = int(w[1]), int(w[2])
            if r in known and s in known:
                known[r] |= known[s]
                pure[r] = pure.get(r, False) and pure.get(s, False) and params.get(r) == params.get(s)
            else:
                # the operand's content is not known to the oracle: neither is the result's
                pure[r] = False
                params[r] = None
        elif o == "rt":
            r, s = int(w[1]), int(w[2])
            if s in known:
                known[r] = set(known[s])
                params[r] = params.get(s)
                pure[r] = pure.get(s, False)
            else:
                known.pop(r, None)
                params[r] = None
                pure[r] = False
        elif o == "loadraw":
            r = int(w[1])
            known[r] = set()
            params[r] = None
            pure[r] = False
        elif o == "bytes":
            r = int(w[1])
            if pure.get(r) and params.get(r) is not None:
                key = (params[r], frozenset(known[r]))
                if key in last_bytes and last_bytes[key] != obs:
                    out.append((k, "C13:bloom:update-is-not-union",
                                "two filters of the same shape holding the same set of hashes (one of them obtained by merging) have different images"))
                last_bytes[key] = obs
    # round trip: `rt r s c` followed by shows must agree -- checked structurally: the observation of rt is show(r)
    shows = {}
    for k, (op, obs) in enumerate(zip(case, impl)):
        w = op.split()
        if not w:
            continue
        if w[0] in ("new", "addmany", "update", "show", "loadraw") and obs.startswith("ok"):
            shows[int(w[1])] = obs
        elif w[0] == "count" and obs.startswith("ok"):
            shows.pop(int(w[1]), None)
        elif w[0] == "rt":
            r, s = int(w[1]), int(w[2])
            if obs.startswith("ok") and s in shows and shows[s] != obs:
                out.append((k, "C13:bloom:roundtrip-changes-filter", f"after to_bytes/from_buffer: {obs}; before: {shows[s]}"))
            if obs.startswith("ok"):
                shows[r] = obs
            elif obs.startswith("err"):
                # a filter made by the constructor must always serialise
                if params.get(s) is not None:
                    out.append((k, "C13:bloom:roundtrip-fails", f"to_bytes/from_buffer of a constructor-made filter raised {obs}"))
    return out


def nontrivial(case, impl):
    return sum(1 for o in impl if o.startswith("ok")) >= 5
