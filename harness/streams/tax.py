"""The `tax` correspondence stream (C19).

One case = one taxonomy CSV + one gather result + summarisation / classification /
writer operations.  The gather result is NOT synthesised: the generator builds sketches
with controlled overlaps (`scn` line) and asks a helper process (the adapter in
`--gather` mode, i.e. the package built from /repo's working tree) to RUN gather; the
`q`/`r` lines (integers N, W, scaled; k_i, w_i, match names, in gather's own order) are
what the Lean model is driven with, and the adapter re-runs gather and checks them.

Ops (one observation line each; `~` encodes a space, `-` the empty string):
  opt <std|ictv|lin> <nranks> <keep_full> <keep_versions> <force> <fail_on_missing>
  t <ident> <cell> ...            one taxonomy row (lin: one cell `a;b;c`)
  scn <scaled> <nq> <abunds|-> <name>=<hashes> ...     sketches for the real gather run
  q <N> <W> <scaled> / r <k> <w> <name>               gather's rows as integers
  perm <i> ...                    reorder the gather rows
  load | sum [rank] | csv | krona <rank> | lsum <rank> | cls <rank|-> <p> <q>|none 1
  fa|fs|fm a b c d                (a/b) + - * (c/d) in binary64 (ties fadd/subF/fmul to CPython)
  ident <kf> <kv> <text>          both get_ident implementations
  sopen / scsv | shuman <r> | skrona <r> | slsum <r> | skreport | sbioboxes
                                  the writers on ONE shared QueryTaxResult, in the order given (csv_summary and human
                                  sort the shared per-rank lists in place: modelled)
  kreport | bioboxes | human <rank>   the writers that format numbers (percent text via fmul + '%.2f'/'%.1f',
                                  kreport's int(f_weighted*total_bp)): modelled exactly
  x...                            implementation-only observations (the bioboxes file writer,
                                  ANI threshold, lineage_csv, the command line): the model answers
                                  `impl-only`, the property oracle checks them
"""
import os
import subprocess
import sys
from fractions import Fraction

sys.path.insert(0, os.path.dirname(os.path.dirname(os.path.abspath(__file__))))
import common  # noqa: E402

MODULE = "tax"
ADAPTER = "tax_impl.py"
TOL = Fraction(1, 10 ** 12)        # |reported double - exact rational| allowed (<= ~1000 rows * 2^-53)
TOL_TEXT = "1e-12"

STD = ["superkingdom", "phylum", "class", "order", "family", "genus", "species", "strain"]
NULLS = ["", "", "", "NA", "na", "null", "[Blank]"]


def same(a, b):
    """line comparison: implementation-only observations are not modelled"""
    return a == b or b == "impl-only"


# --------------------------------------------------------------------------
# helper process: runs gather itself

_helper = None


def _gather(scn_line):
    global _helper
    if _helper is None:
        import build_repo
        env = dict(os.environ, PYTHONPATH=build_repo.PKG + os.pathsep + os.path.join(common.VERIF, "harness"),
                   PYTHONHASHSEED="0")
        _helper = subprocess.Popen([common.PY, os.path.join(common.VERIF, "harness", "adapters", ADAPTER), "--gather"],
                                   stdin=subprocess.PIPE, stdout=subprocess.PIPE, text=True, env=env)
    _helper.stdin.write(scn_line + "\n")
    _helper.stdin.flush()
    ans = _helper.stdout.readline()
    if not ans or ans.startswith("ERR"):
        raise common.ToolFailure("gather helper failed on `" + scn_line[:200] + "`: " + ans)
    ans = ans.rstrip("\n")
    return ans.split("\t") if ans else []


# --------------------------------------------------------------------------
# generator

def enc(s):
    return "-" if s == "" else s.replace(" ", "~")


def partition(rng, n, parts):
    """n as an ordered sum of `parts` positive integers"""
    if parts >= n:
        return [1] * n
    cuts = sorted(rng.sample(range(1, n), parts - 1))
    return [b - a for a, b in zip([0] + cuts, cuts + [n])]


FAILING = [(9, [5, 1, 1, 1, 1]), (13, [4, 3, 3, 3]), (28, [18, 9, 1]), (11, [4, 1, 1, 1, 1, 1, 1, 1]),
           (12, [7, 1, 1, 1, 1, 1]), (18, [7, 5, 2, 2, 2]), (20, [9, 8, 1, 1, 1])]
UNDER = [(6, [4, 1, 1]), (6, [3, 2, 1]), (6, [2, 2, 1, 1])]


def gen_lineage(rng, nranks, depth_bias, branch):
    """a path of names; names are drawn per rank from a small pool (so lineages share prefixes and the
    same name can occur under different parents)"""
    depth = nranks if rng.random() < depth_bias else rng.randint(1, nranks)
    names = []
    for r in range(nranks):
        if r >= depth:
            names.append(rng.choice(NULLS))
        else:
            names.append(f"{'dpcofgsnabxyzuvw'[r % 16]}{rng.randrange(branch)}")
    return names


def gen_case(rng, flavour):
    lines = []
    mode = "std"
    if flavour == "lin":
        mode = "lin"
    elif flavour == "ictv":
        mode = "ictv"
    nranks = {"std": 8, "ictv": 16, "lin": rng.choice([3, 5, 10])}[mode]
    kf = int(rng.random() < 0.12)
    kv = int(kf or rng.random() < 0.35)
    if flavour in ("d18", "full", "ties"):
        kf, kv = 0, int(rng.random() < 0.3)
    force = int(rng.random() < 0.15)
    fail = int(rng.random() < 0.05)
    lines.append(f"opt {mode} {nranks} {kf} {kv} {force} {fail}")

    # ---- the gather scenario: query hashes 1..nq, matches own subsets of them ----
    scaled = rng.choice([1, 1, 2, 10, 1000])
    abund = flavour == "abund" or rng.random() < 0.2
    if flavour == "d18":
        N, parts = rng.choice(FAILING + UNDER) if rng.random() < 0.7 else (None, None)
        if N is None:
            N = rng.randint(5, 30)
            parts = partition(rng, N, rng.randint(3, min(N, 9)))
        unfound = 0
    elif flavour == "full":
        N = rng.randint(2, 60)
        parts = partition(rng, N, rng.randint(1, min(N, 12)))
        unfound = 0
    elif flavour == "small":
        nm = rng.randint(20, 120)
        parts = [rng.choice([1, 1, 1, 2, 3]) for _ in range(nm)]
        unfound = rng.choice([0, 0, 1, rng.randint(1, 50)])
        N = sum(parts) + unfound
    elif flavour == "ties":
        k = rng.randint(1, 4)
        parts = [k] * rng.randint(2, 8) + ([rng.randint(1, 4)] if rng.random() < 0.5 else [])
        unfound = rng.choice([0, 0, rng.randint(1, 5)])
        N = sum(parts) + unfound
    else:
        parts = [rng.randint(1, 12) for _ in range(rng.randint(1, 10))]
        unfound = rng.choice([0, 0, rng.randint(1, 30)])
        N = sum(parts) + unfound
    nm = len(parts)
    # blocks of query hashes; optionally let matches overlap (gather assigns the shared hashes once)
    specs = []
    pos = 1
    blocks = []
    for k in parts:
        blocks.append((pos, pos + k - 1))
        pos += k
    overlap = flavour in ("overlap", "mixed") and rng.random() < 0.7
    for i, (a, b) in enumerate(blocks):
        hl = f"{a}-{b}" if b > a else f"{a}"
        if overlap and i > 0 and rng.random() < 0.5:
            pa, pb = blocks[rng.randrange(i)]
            x = rng.randint(pa, pb)
            hl += f",{x}-{pb}" if pb > x else f",{x}"
        specs.append(hl)
    if rng.random() < 0.1:
        specs.append("-")              # a database sketch sharing nothing with the query
    ab = "-"
    if abund:
        pool = rng.choice([[1, 2, 3], [1, 1, 1, 5], [1, 10, 100], [1, 3]])
        if flavour == "d18" or rng.random() < 0.5:
            # per-block abundance (all hashes of a match equally abundant)
            al = []
            for k in parts:
                al += [rng.choice(pool)] * k
            al += [rng.choice(pool) for _ in range(N - len(al))]
        else:
            al = [rng.choice(pool) for _ in range(N)]
        ab = ",".join(map(str, al))

    # ---- match names and taxonomy ----
    branch = rng.choice([1, 2, 2, 3, 5])
    if flavour == "d18":
        branch = rng.choice([1, 1, 2])
    depth_bias = 1.0 if flavour in ("d18", "full", "lin") else rng.choice([1.0, 0.8, 0.5])
    hole_p = 0.0 if flavour in ("d18", "lin") else rng.choice([0.0, 0.0, 0.1, 0.3])
    names = []
    tax = []
    for i in range(len(specs)):
        acc = f"GC{rng.choice('AF')}_{i:06d}"
        ver = rng.choice([1, 1, 2, 3])
        desc = rng.choice(["", " Genus species strain X", " sp."])
        full = f"{acc}.{ver}{desc}"
        names.append(full)
        r = rng.random()
        absent_p = 0.0 if flavour in ("d18", "full") else 0.12
        if r < absent_p and i > 0:
            continue                                        # match absent from the taxonomy
        form = rng.random()
        if kf:
            ident = full if form < 0.8 else f"{acc}.{ver}"
        elif kv:
            ident = f"{acc}.{ver}" if form < 0.75 else (f"{acc}.{ver + 1}" if form < 0.9 else acc)
        else:
            ident = acc if form < 0.5 else (f"{acc}.{ver}" if form < 0.9 else f"{acc}.{ver} with description")
        if mode == "lin":
            lin = [str(rng.randrange(branch)) for _ in range(nranks)]
            tax.append((ident, [";".join(lin)]))
        else:
            lin = gen_lineage(rng, nranks if mode == "ictv" else rng.choice([7, 8, 8]), depth_bias, branch)
            lin = [rng.choice(NULLS) if (0 < j and rng.random() < hole_p) else x for j, x in enumerate(lin)]
            tax.append((ident, lin))
    if tax and flavour not in ("d18",) and rng.random() < 0.1:
        ident, lin = rng.choice(tax)                        # duplicated identifier: identical or conflicting
        tax.append((ident, list(lin) if rng.random() < 0.5 else gen_lineage(rng, len(lin) if mode != "lin" else 1, 1.0, branch + 3)
                    if mode != "lin" else [";".join(str(rng.randrange(branch + 3)) for _ in range(nranks))]))
    if mode == "std":
        ncol = max([len(l) for _, l in tax] + [7])
        tax = [(i, l + [""] * (ncol - len(l))) for i, l in tax]
    rng.shuffle(tax)
    if mode == "lin" and rng.random() < 0.04:
        tax = []                     # a taxonomy file with a header and no row
    for ident, lin in tax:
        lines.append("t " + enc(ident) + " " + " ".join(enc(x) for x in lin))
    scn = f"scn {scaled} {N} {ab} " + " ".join(f"{enc(n)}={s}" for n, s in zip(names, specs))
    lines.append(scn)
    qr = _gather(scn)
    lines += qr
    nqueries = 1
    all_nrows = [len(qr) - 1]
    if flavour == "multi":
        # further queries over the same database / taxonomy (a multi-query `tax metagenome` run)
        for _ in range(rng.randint(1, 2)):
            parts2 = [rng.randint(0, 8) for _ in specs]
            if not any(parts2):
                parts2[0] = 1
            N2 = sum(parts2) + rng.choice([0, 0, rng.randint(1, 10)])
            pos, specs2 = 1, []
            for k in parts2:
                specs2.append("-" if k == 0 else (f"{pos}-{pos + k - 1}" if k > 1 else f"{pos}"))
                pos += k
            scn2 = f"scn {rng.choice([1, 2, 10])} {N2} - " + " ".join(f"{enc(n)}={sp}" for n, sp in zip(names, specs2))
            qr2 = _gather(scn2)
            if len(qr2) < 2:
                continue
            lines += ["nextq", scn2] + qr2
            qr = qr2
            nqueries += 1
            all_nrows.append(len(qr2) - 1)
    nrows = len(qr) - 1

    # ---- observations ----
    top = nranks - 1
    rk = lambda: rng.randrange(nranks)            # noqa: E731
    if nqueries > 1:
        lines += [f"mkrona {rng.choice([0, 0, nranks - 2, rng.randrange(nranks)])}", f"mlsum {rng.randrange(nranks)}", "mcsv"]
        # the same rows delivered differently: ONE CSV with the queries' rows interleaved (each query's rows in gather's
        # order, or fully shuffled), several CSVs, a query split over two CSVs, a row delivered twice, a CSV without rows
        qrows = [[(qi, ri) for ri in range(n)] for qi, n in enumerate(all_nrows)]
        for _ in range(rng.randint(1, 3)):
            kind = rng.choice(["interleave", "interleave", "shuffle", "twofiles", "split", "dup", "emptyfile"])
            toks = [t for q in qrows for t in q]
            if kind in ("interleave", "dup"):
                cur = [list(q) for q in qrows]
                merged = []
                while any(cur):
                    q = rng.choice([c for c in cur if c])
                    merged.append(q.pop(0))
                if kind == "dup":
                    merged.insert(rng.randrange(len(merged) + 1), rng.choice(merged))
                files = [merged]
            elif kind == "shuffle":
                rng.shuffle(toks)
                files = [toks]
            elif kind == "twofiles":
                order_q = list(range(len(qrows)))
                rng.shuffle(order_q)
                cut = rng.randint(1, len(order_q) - 1) if len(order_q) > 1 else 1
                f1 = [t for q in order_q[:cut] for t in qrows[q]]
                f2 = [t for q in order_q[cut:] for t in qrows[q]]
                rng.shuffle(f1)
                files = [f for f in (f1, f2) if f]
            elif kind == "split":
                rng.shuffle(toks)
                cut = rng.randint(1, max(1, len(toks) - 1))
                files = [f for f in (toks[:cut], toks[cut:]) if f]
            else:
                files = [toks, []]
                rng.shuffle(files)
            lines.append("mfiles " + " ".join(",".join(f"{a}.{b}" for a, b in f) if f else "-" for f in files))
            lines += ["mcsv", f"mkrona {rng.choice([0, rng.randrange(nranks)])}"]
            if rng.random() < 0.3:
                lines.append(f"mlsum {rng.randrange(nranks)}")
    lines += ["load", "sum", "csv"]
    if rng.random() < 0.5:
        lines.append(f"sum {rk()}")
    lines.append(f"krona {rk()}")
    lines.append(f"lsum {rk()}")
    thr_pool = [(0, 1), (1, 10), (1, 10), (1, 2), (1, 1), (1, 1000), (9, 10)]
    if nrows > 0:
        Nq = int(qr[0].split()[1])
        ks = [int(l.split()[1]) for l in qr[1:]]
        thr_pool += [(rng.choice(ks), Nq), (sum(ks[:rng.randint(1, len(ks))]), Nq), (max(1, sum(ks) - 1), Nq)]
    for _ in range(rng.randint(1, 3)):
        p, q = rng.choice(thr_pool)
        lines.append(f"cls {rng.choice(['-', '-', str(rk())])} {p} {q}")
    if rng.random() < 0.15:
        lines.append(f"cls - {rng.choice(['none 1', '3 2', '11 10'])}")
    if mode == "std":
        lines.append("kreport")
        if rng.random() < 0.3:
            lines.append("bioboxes")
        if rng.random() < 0.1:
            lines.append("xbioboxesw")
        if rng.random() < 0.3:
            lines.append(f"human {rng.choice([0, 5, 6])}")
        if rng.random() < 0.3:
            p, q = rng.choice(thr_pool)
            lines.append(f"xlineagecsv - {p} {q}")
    if rng.random() < 0.4:
        lines.append(f"xclsani {rng.choice(['-', '-', str(rk())])} {rng.choice(['9 10', '95 100', '1 2', '99 100', '1 1', '0 1'])}")
    if flavour in ("cli", "cliall") or rng.random() < 0.04:
        # the real command line with subsets of the output formats; before each run the same writers, in the order
        # `tax metagenome` calls them, on one shared in-process object: every file must equal the in-process output
        r = rk() if mode != "std" else rng.choice([0, 1, 5, 6])
        if nqueries > 1:
            allf = ["lineage_summary", "krona", "csv_summary"]
        else:
            allf = ["lineage_summary", "krona", "human", "csv_summary"] + (["kreport", "bioboxes"] if mode == "std" else [])
        if flavour == "cliall":
            subsets = [[f for j, f in enumerate(allf) if m >> j & 1] for m in range(1, 2 ** len(allf))]
        else:
            subsets = [[f for f in allf if rng.random() < 0.5] or [rng.choice(allf)] for _ in range(rng.randint(1, 2))]
        sop = {"lineage_summary": f"slsum {r}", "krona": f"skrona {r}", "human": f"shuman {r}", "csv_summary": "scsv",
               "kreport": "skreport", "bioboxes": "sbioboxes"}
        mop = {"lineage_summary": f"mlsum {r}", "krona": f"mkrona {r}", "csv_summary": "mcsv"}
        for sub in subsets:
            if nqueries > 1:
                lines += [mop[f] for f in allf if f in sub]
            else:
                lines.append("sopen")
                lines += [sop[f] for f in allf if f in sub]
            shuffled = list(sub)
            rng.shuffle(shuffled)
            variant = rng.choice(["", "", " fromfile", " dupg", " forcebad"] + ([" stdout"] if sub == ["csv_summary"] and nqueries == 1 else []))
            lines.append(f"xcli metagenome {r} {','.join(shuffled)}{variant}")
        if nqueries == 1:
            # the default output (stdout, fractions cut to 3 decimals)
            lines += ["sopen", "scsv", f"xcli metagenome {r} csv_summary stdout"]
        if nqueries == 1:
            # `tax genome` with several formats on the one classified object; the classification file must be the
            # in-process classification
            p, q = rng.choice(thr_pool[:7])
            gr = rng.choice(["-", str(r)])
            gf = [f for f in ["csv_summary", "human", "lineage_csv"] + (["krona"] if gr != "-" else []) if rng.random() < 0.6] or ["csv_summary"]
            if "csv_summary" not in gf:
                gf.append("csv_summary")
            rng.shuffle(gf)
            lines.append(f"cls {gr} {p} {q}")
            lines.append(f"xcli genome {gr} {p} {q} {','.join(gf)}")
    # other routes to the same taxonomy: `tax annotate` output used as -t, the sqlite taxonomy; lingroup reports
    if kf == 0 and kv == 0 and fail == 0 and rng.random() < 0.25:
        lines.append("xannot")
    if mode == "std" and rng.random() < 0.25:
        lines.append("xsqltax")
    if mode == "lin" and tax and rng.random() < 0.6:
        pf = set()
        for _, cells in tax:
            parts_ = cells[0].split(";")
            pf.add(";".join(parts_[:rng.randint(1, len(parts_))]))
        pf = sorted(pf)
        rng.shuffle(pf)
        pf = pf[:rng.randint(1, 4)] + (["9;9"] if rng.random() < 0.3 else [])
        lines.append("xlingroup " + ",".join(enc(x) for x in pf))
        p3, q3 = rng.choice(thr_pool)
        lines.append(f"xclslg {','.join(enc(x) for x in (pf if rng.random() < 0.7 else ['9;9']))} {p3} {q3}")
    # older / foreign gather CSVs: an essential column missing (clean refusal), optional columns missing (same sums)
    if rng.random() < 0.12:
        e, t = rng.choice([(0, 1), (0, 1), (1, 0), (2, 0), (3, 1), (4, 0)])
        lines += [f"dropcols {e} {t}", "load", "sum"]
        if mode == "std":
            lines.append("kreport")
        if nqueries > 1:
            lines.append("mcsv")
        lines.append("dropcols 0 0")
    # several writers on ONE QueryTaxResult (as one `tax metagenome -F a b c` run does): random order, repeats;
    # every writer is also run on a fresh object first, and must print the same thing
    if rng.random() < 0.75:
        r1 = rk()
        pool = ["csv", "csv", f"krona {r1}", f"lsum {r1}", f"human {rng.choice([r1, rk()])}", f"human {rk()}"]
        if mode == "std":
            pool += ["kreport", "kreport", "bioboxes"]
        seq = [rng.choice(pool) for _ in range(rng.randint(2, 7))]
        lines += sorted(set(seq))
        lines.append("sopen")
        lines += ["s" + x for x in seq]
    # ONE QueryTaxResult summarised / classified / written again and again (API route; the CLI builds once): every
    # writer after a rebuild must print what it prints on a fresh object (restricted to the ranks the documented
    # single_rank / force_resummarize semantics leave summarised)
    if rng.random() < 0.6:
        r2 = rk()
        p2, q2 = rng.choice(thr_pool)
        wr = ["scsv", "scsv", f"shuman {r2}", f"skrona {r2}", f"slsum {r2}"] + (["skreport", "skreport", "sbioboxes"] if mode == "std" else [])
        bl = ["sbuild - 0", "sbuild - 0", "sbuild - 0", "sbuild - 1", f"sbuild {r2} 0", f"sbuild {r2} 1",
              f"scls - {p2} {q2} 0", f"scls {r2} {p2} {q2} 0", f"scls - {p2} {q2} 1", f"scls {rk()} {p2} {q2} 0"]
        lines += sorted({x[1:] for x in wr})
        lines.append(rng.choice(["snew", "snew", "sopen"]))
        for _ in range(rng.randint(3, 9)):
            lines.append(rng.choice(bl) if rng.random() < 0.5 else rng.choice(wr))
    # order independence: permuted gather rows
    if nrows > 1:
        idx = list(range(nrows))
        if rng.random() < 0.4:
            idx.reverse()
        else:
            rng.shuffle(idx)
        lines.append("perm " + " ".join(map(str, idx)))
        lines += ["sum"]
        p, q = rng.choice(thr_pool)
        lines.append(f"cls - {p} {q}")
    # floats and identifiers
    for _ in range(rng.randint(0, 3)):
        op = rng.choice(["fa", "fs", "fm"])
        b = rng.choice([3, 7, 9, 10, 1000, 12345, 10 ** 9, 2 ** 40 + 1])
        d = rng.choice([3, 9, 10, 13, 77777, 10 ** 12])
        lines.append(f"{op} {rng.randint(0, b)} {b} {rng.randint(0, d)} {d}")
    lines.append("xrecheck")
    if rng.random() < 0.3:
        s = rng.choice(["GCF_000001.1 E coli", "GCF_1", "a.b.c d.e", " lead", ".x y", "", "a  b", "GCA_9.10.11"])
        lines.append(f"ident {rng.randrange(2)} {rng.randrange(2)} {enc(s)}")
    return lines


# --------------------------------------------------------------------------
# the property oracle (written from the statement; exact rationals; independent of the Lean model)

def dec(s):
    return "" if s == "-" else s.replace("~", " ")


def spec_ident(s, kf, kv):
    """documented identifier handling: unless the full name is kept, the identifier is the text before the
    first space; unless versions are kept, the text before the first '.' of that"""
    if kf:
        return s
    s = s.split(" ")[0]
    if not kv:
        s = s.split(".")[0]
    return s


def parse_float(t):
    """canonical 'mpe' -> Fraction"""
    neg = t.startswith("-")
    if neg:
        t = t[1:]
    m, e = t.split("p")
    v = Fraction(int(m)) * (Fraction(2) ** int(e))
    return -v if neg else v


class Parsed:
    pass


def parse_case(case):
    P = Parsed()
    P.mode, P.nranks, P.kf, P.kv, P.force, P.fail = "std", 8, False, False, False, False
    P.tax = []
    P.q = None
    P.rows = []
    P.queries = []          # finished queries of a multi-query run: (q, rows)
    P.ok = True
    for l in case:
        w = l.split()
        if not w:
            continue
        if w[0] == "opt" and len(w) == 7:
            P.mode, P.nranks = w[1], int(w[2])
            P.kf, P.kv, P.force, P.fail = (x == "1" for x in w[3:7])
        elif w[0] == "t" and len(w) >= 2:
            P.tax.append((dec(w[1]), [dec(x) for x in w[2:]]))
        elif w[0] == "nextq":
            if P.q is not None:
                P.queries.append((P.q, P.rows))
            P.q, P.rows = None, []
        elif w[0] == "q" and len(w) == 4:
            P.q = tuple(map(int, w[1:]))
        elif w[0] == "r" and len(w) == 4:
            P.rows.append((int(w[1]), int(w[2]), dec(w[3])))
    return P


def spec_taxonomy(P):
    """ident -> lineage (tuple of names/None, trailing empties dropped); None if loading must fail"""
    tax = {}
    nr = P.nranks
    for ident, cells in P.tax:
        if P.mode == "lin":
            s = cells[0] if cells else ""
            parts = s.split(";")
            if len(parts) == 1:
                parts = s.split(",")
            lin = tuple(parts)
            nr = len(parts)
        else:
            lin = [None if c.strip() in ("", "NA", "na", "null", "[Blank]") else c for c in cells]
            while lin and lin[-1] is None:
                lin.pop()
            lin = tuple(lin)
        if not lin:
            continue
        key = spec_ident(ident, P.kf, P.kv)
        if key in tax:
            if tax[key] != lin and not P.force:
                return None, nr
            continue
        tax[key] = lin
    return tax, nr


def spec_rows(P, order=None, raw=None):
    """[(k, w, lineage or None)] in the given order"""
    tax, nr = spec_taxonomy(P)
    if tax is None:
        return None, nr
    rows = []
    for k, w, name in (P.rows if raw is None else raw):
        rows.append((k, w, tax.get(spec_ident(name, P.kf, P.kv))))
    if order is not None:
        rows = [rows[i] for i in order]
    return rows, nr


def disp(lin):
    return ";".join("" if x is None else x for x in lin)


def spec_table(P, rows, nr):
    """exact per-rank sums: {rank: {display lineage: [sum k, sum w]}}"""
    T = {}
    for k, w, lin in rows:
        if not lin:
            continue
        for r in range(min(nr, len(lin))):
            if lin[r] is None:
                continue
            d = T.setdefault(r, {}).setdefault(disp(lin[:r + 1]), [0, 0])
            d[0] += k
            d[1] += w
    return T


def parse_entries(line):
    """'ok r|lin|f|fw|bp ...' -> list of (rank, lin, f, fw, bp)"""
    out = []
    for t in line.split()[1:]:
        r, lin, f, fw, bp = t.split("|")
        out.append((int(r), dec(lin), parse_float(f), parse_float(fw), int(bp)))
    return out


def check_table(P, rows, nr, entries, idx, bad, what="sum", single=None):
    N, W, sc = P.q
    T = spec_table(P, rows, nr)
    got = {}
    for r, lin, f, fw, bp in entries:
        if (r, lin) in got:
            bad.append((idx, "C19:table:duplicate-lineage", f"{what}: lineage {lin!r} reported twice at rank {r}"))
        got[(r, lin)] = (f, fw, bp)
    ranks = sorted(T) if single is None else [single]
    for r in ranks:
        exp = T.get(r, {})
        tot_k = sum(v[0] for v in exp.values())
        tot_w = sum(v[1] for v in exp.values())
        for lin, (k, w) in exp.items():
            g = got.get((r, lin))
            if g is None:
                bad.append((idx, "C19:rank_sum:lineage-missing", f"{what}: rank {r}: lineage {lin!r} with {k}/{N} of the query is not reported"))
                continue
            f, fw, bp = g
            if abs(f - Fraction(k, N)) > TOL:
                bad.append((idx, "C19:rank_sum:fraction", f"{what}: rank {r} {lin!r}: fraction {float(f)!r} but the matches under it sum to {k}/{N}"))
            if abs(fw - Fraction(w, W)) > TOL:
                bad.append((idx, "C19:rank_sum:weighted", f"{what}: rank {r} {lin!r}: weighted fraction {float(fw)!r} but the matches under it sum to {w}/{W}"))
            if bp != k * sc:
                bad.append((idx, "C19:rank_sum:bp", f"{what}: rank {r} {lin!r}: {bp} bp but the matches under it sum to {k * sc}"))
            if not (0 < f <= 1) or not (0 < fw <= 1):
                bad.append((idx, "C19:bounds", f"{what}: rank {r} {lin!r}: fraction {float(f)!r} / weighted {float(fw)!r} outside (0, 1]"))
        for (rr, lin), (f, fw, bp) in got.items():
            if rr == r and lin != "unclassified" and lin not in exp:
                bad.append((idx, "C19:rank_sum:lineage-extra", f"{what}: rank {r}: lineage {lin!r} reported but no match lies under it"))
        un = got.get((r, "unclassified"))
        rem_k = N - tot_k
        if un is None:
            if rem_k > 0:
                bad.append((idx, "C19:conservation:remainder-missing", f"{what}: rank {r}: {rem_k}/{N} of the query is unclassified but no remainder is reported"))
        else:
            f, fw, bp = un
            if rem_k == 0:
                sig = "C19:conservation:spurious-remainder" if (0 < f <= Fraction(1, 2 ** 40) and bp == 0) else "C19:conservation:spurious-remainder:large"
                bad.append((idx, sig,
                            f"{what}: rank {r}: every hash of the query is classified ({tot_k}/{N}) but an unclassified remainder of {float(f)!r} ({bp} bp) is reported (float rounding of the sum)"))
            else:
                if abs(f - Fraction(rem_k, N)) > TOL or abs(fw - Fraction(W - tot_w, W)) > TOL or bp != rem_k * sc:
                    bad.append((idx, "C19:conservation:remainder", f"{what}: rank {r}: unclassified {float(f)!r}/{float(fw)!r}/{bp} bp, expected {rem_k}/{N}, {W - tot_w}/{W}, {rem_k * sc} bp"))
                if not (0 < f <= 1) or not (0 <= fw <= 1):
                    bad.append((idx, "C19:bounds", f"{what}: rank {r}: unclassified fraction outside [0, 1]"))
        # conservation on the implementation's own numbers
        here = [(f, fw, bp) for (rr, _), (f, fw, bp) in got.items() if rr == r]
        if here:
            if abs(sum(x[0] for x in here) - 1) > TOL or abs(sum(x[1] for x in here) - 1) > TOL:
                bad.append((idx, "C19:conservation:sum", f"{what}: rank {r}: reported fractions sum to {float(sum(x[0] for x in here))!r}"))
            if sum(x[2] for x in here) != N * sc:
                bad.append((idx, "C19:conservation:bp", f"{what}: rank {r}: reported bp sum to {sum(x[2] for x in here)}, query has {N * sc}"))
    if single is None:
        for (r, lin) in got:
            if r not in T:
                bad.append((idx, "C19:rank_sum:rank-extra", f"{what}: rank {r} reported but no match has it"))
        # a parent is never smaller than the sum of its reported children
        for (r, lin), (f, fw, bp) in got.items():
            if lin == "unclassified":
                continue
            pre = lin.split(";")
            for r2 in sorted(T):
                if r2 <= r:
                    continue
                ch = [(v, l2) for (rr, l2), v in got.items() if rr == r2 and l2 != "unclassified" and l2.split(";")[:r + 1] == pre]
                if ch and (sum(v[0][0] for v in ch) > f + TOL or sum(v[0][2] for v in ch) > bp or sum(v[0][1] for v in ch) > fw + TOL):
                    bad.append((idx, "C19:parent_ge_children", f"{what}: {lin!r} at rank {r} ({float(f)!r}, {bp} bp) is smaller than its children at rank {r2}"))


def spec_load(P, allq, layout, drop_ess):
    """what loading the delivered files must give, from the rows alone: (error tag | None, {query index: [(k, w, lineage)]}
    in order of appearance, invalid) -- a query whose rows arrive in more than one file is refused, an empty file is refused,
    a row without lineage is refused under --fail-on-missing-taxonomy; otherwise every query owns ALL its delivered rows,
    wherever they were in the files"""
    tax, nr = spec_taxonomy(P)
    if tax is None:
        return "ValueError:multi", {}, False
    if not tax:
        return "ValueError:empty", {}, False
    if layout is None:
        layout = [[(qi, ri) for ri in range(len(rr))] for qi, (qq, rr) in enumerate(allq)]
    per_query = {}
    seen_files = {}
    invalid = False
    for fi, f in enumerate(layout):
        if f and drop_ess:
            return "ValueError:cols", {}, False
        got_any = False
        for (qi, ri) in f:
            if qi in seen_files and seen_files[qi] != fi:
                return "ValueError:dupq", {}, False
            k, w_, name = allq[qi][1][ri]
            lin = tax.get(spec_ident(name, P.kf, P.kv))
            if P.fail and lin is None:
                return "ValueError:missing", {}, False
            if (qi, ri) in [x for x in per_query.get(qi, {}).get("ids", [])]:
                invalid = True
            per_query.setdefault(qi, {"ids": [], "rows": []})
            per_query[qi]["ids"].append((qi, ri))
            per_query[qi]["rows"].append((k, w_, lin))
            got_any = True
        for qi in {q for q, _ in f}:
            seen_files[qi] = fi
        if not got_any:
            return "ValueError:empty", {}, False
    return None, {qi: v["rows"] for qi, v in per_query.items()}, invalid


def float_explains(P, rows, nr, tag):
    """is a rejection accounted for by binary64 rounding of the running sums (in row order)?
    gt100: some lineage's running float sum of k_i/N (or w_i/W) exceeds 1.0 although the exact sum is <= 1;
    le0: at some rank the float total of the fractions is < 1.0 while the float total of the weighted
    fractions is >= 1.0 (or a fraction total rounds to <= 0)"""
    N, W, sc = P.q
    F = {}
    for k, w, lin in rows:
        if not lin:
            continue
        for r in range(min(nr, len(lin))):
            if lin[r] is None:
                continue
            d = F.setdefault(r, {}).setdefault(disp(lin[:r + 1]), [0.0, 0.0])
            d[0] += k / N
            d[1] += w / W
    if tag == "gt100":
        return any(v[0] > 1 or v[1] > 1 for t in F.values() for v in t.values())
    for t in F.values():
        vals = sorted(t.values(), key=lambda v: -v[0])
        tf = tw = 0.0
        for v in vals:
            tf += v[0]
            tw += v[1]
        if 1.0 - tf > 0 and 1.0 - tw <= 0:
            return True
    return False


def classify_spec(P, rows, nr, rank, thr):
    """exact decision: (status, rank, set of admissible lineages, k) -- ties in the exact sums admit any of the tied"""
    N, W, sc = P.q
    T = spec_table(P, rows, nr)
    ranks = sorted(T, reverse=True) if rank is None else ([rank] if rank in T else None)
    if not ranks:
        return None
    last = None
    for r in ranks:
        best = max(v[0] for v in T[r].values())
        lins = {l for l, v in T[r].items() if v[0] == best}
        if thr is None:
            return ("nomatch", r, lins, best, False)
        edge = Fraction(best, N) == thr
        if Fraction(best, N) >= thr:
            return ("match", r, lins, best, edge)
        last = ("below_threshold", r, lins, best, edge)
    return last


def oracle(case, impl):
    """never raises: an observation the oracle cannot even parse is itself reported"""
    try:
        return _oracle(case, impl)
    except Exception as e:       # noqa: BLE001
        import traceback
        return [(0, "C19:oracle:unparseable-observation",
                 f"the property oracle could not interpret the implementation's observations: {type(e).__name__}: {e}; "
                 + traceback.format_exc()[-300:])]


def _oracle(case, impl):
    bad = []
    P = parse_case(case)
    if P.q is None or not P.rows:
        return bad
    N, W, sc = P.q
    # gather's own guarantees (C07): positive disjoint unique overlaps within the query
    if not (sum(k for k, _, _ in P.rows) <= N and sum(w for _, w, _ in P.rows) <= W and all(k > 0 and w > 0 for k, w, _ in P.rows)):
        return [(0, "skip:not-a-valid-gather-result", "")]
    order = None
    first_sum = None
    api = {}
    fresh = {}
    sess_out = {}
    last_cls = {}
    layout = None
    drop_ess = drop_totw = False
    eff = None          # the shared object's summarized ranks per the documented semantics: None | "all" | rank
    built = None        # the ranks its result lists hold: None (empty) | "all" | rank
    for idx, (l, o) in enumerate(zip(case, impl)):
        w = l.split()
        if not w:
            continue
        op = w[0]
        if o.startswith("gather-mismatch"):
            bad.append((idx, "C19:harness:gather-rows-differ", f"the gather rows given to the model are not the ones gather produced: {o}"))
            continue
        if op in ("csv", "krona", "lsum", "human", "kreport", "bioboxes") and o.startswith("ok"):
            fresh[l.strip()] = o
        if op == "cls" and len(w) == 4:
            last_cls[(w[1], w[2], w[3])] = o
        if op in ("sopen", "snew", "sbuild", "scls") and not drop_ess:
            rows_s, nr_s = spec_rows(P, order)
            if rows_s is None or not spec_taxonomy(P)[0] or (P.fail and any(lin is None for _, _, lin in rows_s)):
                eff = built = None
                sess_spec = False
            else:
                sess_spec = True
                T_s = spec_table(P, rows_s, nr_s)
                if op == "snew":
                    eff = built = None
                elif op == "sopen":
                    eff = built = "all"
                elif op == "sbuild" and len(w) == 3:
                    single = None if w[1] == "-" else int(w[1])
                    force = w[2] == "1"
                    exp_err = None
                    if eff is None or force:
                        if single is None:
                            eff = "all"
                        elif single in T_s:
                            eff = single
                        else:
                            eff, exp_err = None, "rank"
                    elif single is not None and ((eff == "all" and single not in T_s) or (eff != "all" and eff != single)):
                        exp_err = "rank"
                    built = None if exp_err else eff
                    if exp_err and not o.startswith("err ValueError:" + exp_err):
                        bad.append((idx, "C19:rebuild:error-expected", f"`{l}`: expected a {exp_err} error, got {o[:80]}"))
                    elif not exp_err and o != "ok":
                        bad.append((idx, "C19:never_rejected:rebuild", f"`{l}` (another build_summarized_result on the same object) failed: {o[:100]}"))
                elif op == "scls" and len(w) == 5:
                    rank = None if w[1] == "-" else int(w[1])
                    thr = None if w[2] == "none" else Fraction(int(w[2]), int(w[3]))
                    force = w[4] == "1"
                    if thr is not None and not 0 <= thr <= 1:
                        if o != "err ValueError:thr":
                            bad.append((idx, "C19:classification:threshold-range", f"threshold {thr} accepted: {o[:80]}"))
                    else:
                        exp_err = None
                        if eff is None or force:
                            if force and eff is not None:
                                built = None
                            if rank is None:
                                eff = "all"
                            elif rank in T_s:
                                eff = rank
                            else:
                                eff, exp_err = None, "rank"
                        elif rank is not None and ((eff == "all" and rank not in T_s) or (eff != "all" and eff != rank)):
                            exp_err = "rank"
                        if exp_err is None and eff == "all" and not T_s:
                            exp_err = "noranks"
                        if exp_err:
                            if not o.startswith("err ValueError:" + exp_err):
                                bad.append((idx, "C19:rebuild:error-expected", f"`{l}`: expected a {exp_err} error, got {o[:80]}"))
                        else:
                            exp = classify_spec(P, rows_s, nr_s, rank if eff == "all" else eff, thr)
                            if not o.startswith("ok"):
                                bad.append((idx, "C19:never_rejected:rebuild", f"`{l}` on an already used object failed: {o[:100]}"))
                            elif exp is not None and not exp[4]:
                                _, st_, r_, lin_, f_, fw_, bp_ = o.split()
                                if st_ != exp[0] or int(r_) != exp[1] or dec(lin_) not in exp[2] or int(bp_) != exp[3] * P.q[2]:
                                    bad.append((idx, "C19:rebuild-dependence:classification",
                                                f"`{l}` on an already used object: {o[:120]}; a fresh object gives {exp[0]} at rank {exp[1]} ({sorted(exp[2])[:2]}, {exp[3] * P.q[2]} bp)"))
        if op == "sopen":
            sess_out.clear()
        if op in ("scsv", "skrona", "slsum", "shuman", "skreport", "sbioboxes", "mcsv", "mkrona", "mlsum") and o.startswith("ok"):
            sess_out[op[1:]] = o
        if op in ("scsv", "skrona", "slsum", "shuman", "skreport", "sbioboxes"):
            ref_o = fresh.get(l.strip()[1:])
            if ref_o is not None and ref_o.startswith("ok") and not drop_ess:
                # restrict the fresh output to the ranks the shared object holds (built) and still lists (eff)
                def keep_rank(rk_):
                    return (built == "all" or built == rk_) and (op not in ("scsv", "skrona", "slsum") or eff == "all" or eff == rk_)
                toks = ref_o.split()[1:]
                if built is None:
                    toks = []
                elif op == "scsv":
                    toks = [t for t in toks if keep_rank(int(t.split("|")[0]))]
                elif op in ("skrona", "slsum", "shuman"):
                    toks = toks if keep_rank(int(w[1])) else []
                elif built != "all":
                    toks = None             # kreport / bioboxes of a single-rank object: model comparison only
                if toks is not None:
                    ref_o = "ok " + " ".join(toks) if toks else "ok"
                else:
                    ref_o = None
            if ref_o is not None and o != ref_o:
                if o.startswith("ok") and sorted(o.split()) == sorted(ref_o.split()):
                    bad.append((idx, "C19:writer-order-dependence:row-order",
                                f"`{l}` on a QueryTaxResult other writers have already used prints the same rows in another order than on a "
                                f"fresh object (make_full_summary / make_human_summary sort the shared per-rank lists in place)"))
                else:
                    bad.append((idx, f"C19:writer-order-dependence:{op[1:]}",
                                f"`{l}` prints different rows after other writers / builds ran on the same QueryTaxResult: "
                                f"{len(o.split()) - 1} rows instead of {len(ref_o.split()) - 1}; fresh: {ref_o[:120]} ... shared: {o[:120]}"))
            continue
        if op == "perm":
            fresh.clear()
            idx_l = [int(x) for x in w[1:]]
            cur = order if order is not None else list(range(len(P.rows)))
            if len(idx_l) == len(cur):
                order = [cur[i] for i in idx_l]
            continue
        if op == "xrecheck":
            if not o.startswith("ok"):
                bad.append((idx, "C19:history:earlier-result-changed",
                            f"a result object an earlier call returned no longer says what it said (or its views disagree) after later calls: {o[:120]}"))
            continue
        if op == "mfiles":
            layout = [[] if f == "-" else [tuple(int(x) for x in t.split(".")) for t in f.split(",")] for f in w[1:]]
            continue
        if op == "dropcols" and len(w) == 3:
            drop_ess, drop_totw = int(w[1]) > 0, w[2] == "1"
            continue
        if op in ("mkrona", "mlsum", "mcsv"):
            allq = P.queries + [(P.q, P.rows)]
            # the rows as DELIVERED (files of the layout), grouped by query name independently of the loader
            fail, per_query, invalid = spec_load(P, allq, layout, drop_ess)
            tabs = []
            qidx = []
            if fail is None:
                for qi in per_query:
                    tabs.append((allq[qi][0], per_query[qi], spec_taxonomy(P)[1]))
                    qidx.append(qi)
            if fail:
                if o != "err " + fail:
                    bad.append((idx, "C19:load:error-expected", f"`{l[:60]}`: expected {fail}, got {o[:80]}"))
                continue
            if invalid:
                continue        # a gather row delivered twice: not a valid gather result, only the model comparison applies
            if o.startswith("err ValueError:gt100") or o.startswith("err ValueError:le0"):
                bad.append((idx, "C19:never_rejected:multi-query", f"`{l}` rejects valid gather results of {len(allq)} queries: {o}"))
                continue
            if op == "mcsv" and o.startswith("ok"):
                # per query: the summary must be the sums over THAT query's rows, wherever they were in the files
                byq = {}
                for t in o.split()[1:]:
                    qi_s, ent = t.split(":", 1)
                    byq.setdefault(int(qi_s), []).append(ent)
                for (qq, rws, nr2), qi in zip(tabs, qidx):
                    if not any(lin for _, _, lin in rws):
                        continue
                    ents = parse_entries("ok " + " ".join(byq.get(qi, [])))
                    saveq = P.q
                    P.q = qq
                    sub = []
                    check_table(P, rws, nr2, ents, idx, sub, what=f"mcsv query {qi}")
                    P.q = saveq
                    for (i2, sig, msg) in sub:
                        bad.append((i2, sig.replace("C19:", "C19:multi:", 1), msg))
                for qi in byq:
                    if qi not in qidx:
                        bad.append((idx, "C19:multi:query-extra", f"`{l}`: rows for query {qi} which has no delivered row"))
            if op == "mkrona":
                r = int(w[1])
                exp = {}
                ok_rank = True
                for (qq, rws, nr2) in tabs:
                    saveq = P.q
                    P.q = qq
                    T = spec_table(P, rws, nr2)
                    P.q = saveq
                    if r not in T:
                        ok_rank = False
                        break
                    Nq = qq[0]
                    tot = 0
                    for lin, (k, _) in T[r].items():
                        exp[lin] = exp.get(lin, 0) + Fraction(k, Nq)
                        tot += k
                    if Nq - tot > 0:
                        exp["unclassified"] = exp.get("unclassified", 0) + Fraction(Nq - tot, Nq)
                if not ok_rank:
                    if not o.startswith("err ValueError:rank"):
                        bad.append((idx, "C19:multi:rank-error-expected", f"`{l}`: a query has no lineage at rank {r}; got {o[:80]}"))
                    continue
                if not o.startswith("ok"):
                    bad.append((idx, "C19:never_rejected:other", f"`{l}` failed on valid gather results: {o[:100]}"))
                    continue
                got = {dec(t.split("|")[0]): parse_float(t.split("|")[1]) for t in o.split()[1:]}
                m = len(tabs)
                for lin, v in exp.items():
                    if lin not in got:
                        if not (lin == "unclassified"):
                            bad.append((idx, "C19:multi:lineage-missing", f"`{l}`: {lin!r} (mean fraction {float(v / m)!r}) not reported"))
                    elif abs(got[lin] - v / m) > TOL:
                        bad.append((idx, "C19:multi:mean-fraction", f"`{l}`: {lin!r} reported {float(got[lin])!r}, the mean over {m} queries is {float(v / m)!r}"))
                for lin in got:
                    if lin not in exp and not (lin == "unclassified" and got[lin] <= Fraction(1, 2 ** 40)):
                        bad.append((idx, "C19:multi:lineage-extra", f"`{l}`: {lin!r} reported but no query has it"))
                if got and abs(sum(got.values()) - 1) > TOL:
                    bad.append((idx, "C19:multi:conservation", f"`{l}`: aggregated fractions sum to {float(sum(got.values()))!r}"))
            elif not o.startswith("ok") and not o.startswith("err ValueError:rank"):
                bad.append((idx, "C19:never_rejected:other", f"`{l}` failed on valid gather results: {o[:100]}"))
            continue
        if op not in ("load", "sum", "csv", "krona", "lsum", "cls", "kreport", "bioboxes", "human") and not op.startswith("x"):
            continue
        rows, nr = spec_rows(P, order)
        must_fail = None
        if rows is None:
            must_fail = "ValueError:multi"
        elif not spec_taxonomy(P)[0]:
            must_fail = "ValueError:empty"          # the taxonomy is loaded (and refused) before the gather results
        elif drop_ess and op not in ("sopen", "scsv", "shuman", "skrona", "slsum", "skreport", "sbioboxes", "xcli"):
            must_fail = "ValueError:cols"           # a gather CSV without an essential column is refused cleanly
        elif P.fail and any(lin is None for _, _, lin in rows):
            must_fail = "ValueError:missing"
        if must_fail:
            if must_fail == "ValueError:empty" and P.mode == "lin" and not P.tax and o == "err UnboundLocalError":
                bad.append((idx, "C19:load:empty-lin-taxonomy-crash",
                            "a LIN taxonomy CSV with a header and no rows makes LineageDB.load die with UnboundLocalError "
                            "('ranks' is never assigned) instead of the clean 'No taxonomic assignments loaded' error "
                            "the standard-rank loader gives"))
            elif o != "err " + must_fail:
                bad.append((idx, "C19:load:error-expected", f"`{l[:60]}`: expected {must_fail}, got {o[:80]}"))
            continue
        if drop_totw and op == "kreport":
            if spec_table(P, rows, nr) and not o.startswith("err ValueError:other"):
                bad.append((idx, "C19:load:error-expected", f"kreport without total_weighted_hashes: expected the 'before v4.5.0' error, got {o[:80]}"))
            continue
        if o.startswith("err ValueError:gt100") or o.startswith("err ValueError:le0"):
            tag = o.split(":")[1].split()[0]
            what = {"gt100": "float sum of k_i/N over one lineage exceeds 1.0 ('fraction is > 100%')",
                    "le0": "'fraction is <=0%' on the unclassified remainder (1.0 - float sum)"}[tag]
            # the known defect is specifically float rounding of the running sums, in row order; anything else
            # that rejects a valid result gets its own signature
            if not float_explains(P, rows, nr, tag):
                tag += ":not-explained-by-rounding"
            bad.append((idx, f"C19:never_rejected:{tag}",
                        f"`{l[:40]}` rejects a valid gather result (N={N}, k={[k for k, _, _ in rows][:12]}, "
                        f"w={[x for _, x, _ in rows][:12]}/W={W}): {what}"))
            if op == "sum" and len(w) == 1 and order is not None and first_sum is not None and first_sum.startswith("ok"):
                bad.append((idx, "C19:order_independent:rejection", "the same gather rows are accepted in gather's order and rejected after a permutation"))
            if op == "sum" and len(w) == 1 and first_sum is None:
                first_sum = o
            continue
        if op == "load":
            exp_missed = sum(1 for _, _, lin in rows if lin is None)
            if o != f"ok rows={len(rows)} missed={exp_missed}":
                bad.append((idx, "C19:load:counts", f"loaded {o}, expected rows={len(rows)} missed={exp_missed}"))
            continue
        if op == "sum":
            single = int(w[1]) if len(w) > 1 else None
            T = spec_table(P, rows, nr)
            if single is not None and single not in T:
                if not o.startswith("err ValueError:rank"):
                    bad.append((idx, "C19:sum:rank-error-expected", f"rank {single} has no lineage; got {o[:80]}"))
                continue
            if not o.startswith("ok"):
                bad.append((idx, "C19:never_rejected:other", f"`{l}` failed on a valid gather result: {o[:100]}"))
                continue
            ents = parse_entries(o)
            check_table(P, rows, nr, ents, idx, bad, single=single)
            if single is None:
                if first_sum is None:
                    first_sum = o
                    api["sum"] = ents
                elif order is not None:
                    if first_sum.startswith("err"):
                        bad.append((idx, "C19:order_independent:rejection", "the same gather rows are rejected in gather's order and accepted after a permutation"))
                    else:
                        a = {(r, lin): (f, fw, bp) for r, lin, f, fw, bp in parse_entries(first_sum)}
                        b = {(r, lin): (f, fw, bp) for r, lin, f, fw, bp in ents}
                        for key in set(a) | set(b):
                            if key not in a or key not in b:
                                if not (key[1] == "unclassified"):      # a spurious remainder is reported under its own signature
                                    bad.append((idx, "C19:order_independent:entries", f"{key} reported for one row order only"))
                            elif a[key][2] != b[key][2] or abs(a[key][0] - b[key][0]) > TOL or abs(a[key][1] - b[key][1]) > TOL:
                                bad.append((idx, "C19:order_independent:values", f"{key}: {a[key]} vs {b[key]} after permuting the gather rows"))
            continue
        if op in ("csv", "krona", "lsum"):
            if not o.startswith("ok"):
                bad.append((idx, "C19:never_rejected:other", f"`{l}` failed on a valid gather result: {o[:100]}"))
                continue
            ref = api.get("sum")
            if ref is None or order is not None:
                continue
            if op == "csv":
                a = sorted((r, lin, f, fw, bp) for r, lin, f, fw, bp in parse_entries(o))
                if a != sorted(ref):
                    bad.append((idx, "C19:format_independent:csv_summary", "csv_summary rows differ from the summarised table"))
                api["csv"] = o
            else:
                r = int(w[1])
                a = sorted((dec(t.split("|")[0]), parse_float(t.split("|")[1])) for t in o.split()[1:])
                b = sorted((lin, f) for rr, lin, f, fw, bp in ref if rr == r)
                if a != b:
                    bad.append((idx, f"C19:format_independent:{op}", f"{op} at rank {r} differs from the summarised table: {a[:3]} vs {b[:3]}"))
                api[op + w[1]] = o
            continue
        if op == "cls":
            rank = None if w[1] == "-" else int(w[1])
            thr = None if w[2] == "none" else Fraction(int(w[2]), int(w[3]))
            if thr is not None and not 0 <= thr <= 1:
                if o != "err ValueError:thr":
                    bad.append((idx, "C19:classification:threshold-range", f"threshold {thr} accepted: {o[:80]}"))
                continue
            exp = classify_spec(P, rows, nr, rank, thr)
            if exp is None:
                if not o.startswith("err ValueError:rank") and not o.startswith("err ValueError:noranks"):
                    bad.append((idx, "C19:classification:rank-error-expected", f"`{l}`: no lineage at that rank; got {o[:80]}"))
                continue
            if not o.startswith("ok"):
                bad.append((idx, "C19:never_rejected:other", f"`{l}` failed on a valid gather result: {o[:100]}"))
                continue
            _, st, r, lin, f, fw, bp = o.split()
            r, lin, f, bp = int(r), dec(lin), parse_float(f), int(bp)
            est, er, elins, ek, edge = exp
            if edge:
                continue      # the summed fraction equals the threshold exactly as a rational: the float comparison may fall either side
            if st != est or r != er:
                bad.append((idx, "C19:classification_lowest_rank", f"`{l}`: reported {st} at rank {r}, the lowest rank meeting the threshold is {er} ({est})"))
            elif lin not in elins:
                bad.append((idx, "C19:classification:best-lineage", f"`{l}`: reported {lin!r}, best supported is {sorted(elins)[:3]}"))
            elif abs(f - Fraction(ek, N)) > TOL or bp != ek * sc:
                bad.append((idx, "C19:classification:values", f"`{l}`: fraction {float(f)!r} / {bp} bp, expected {ek}/{N} / {ek * sc}"))
            continue
        # ---- implementation-only observations ----
        if first_sum is not None and first_sum.startswith("err") and order is None:
            continue            # the rejection is already reported under its own signature
        Tx = spec_table(P, rows, nr)
        if not Tx:
            continue            # no match has a lineage: nothing to summarise or classify
        rk_arg = w[2] if op == "xcli" else (w[1] if len(w) > 1 else "-")
        if rk_arg.isdigit() and int(rk_arg) not in Tx:
            continue            # a rank without any lineage was asked for
        if not o.startswith("ok"):
            if op == "xclslg" and o.startswith("err AttributeError"):
                bad.append((idx, "C19:never_rejected:genome-lingroup-none-applies",
                            f"`{l}`: `tax genome --lingroup` dies with AttributeError ('NoneType' has no build_krona_result) when at no "
                            "lingroup rank the best-supported lineage is one of the lingroups: build_classification_result leaves classif = None"))
                continue
            if op == "xclslg" and (o.startswith("err ValueError:noranks") or o.startswith("err ValueError:rank")
                                   or o.startswith("err ValueError:nolingroup")):
                continue
            if op == "xbioboxesw" and o.startswith("err TypeError"):
                bad.append((idx, "C19:never_rejected:bioboxes-writer-none-taxid",
                            "writing the bioboxes format for a taxonomy without a `taxpath` column dies with TypeError "
                            "(write_bioboxes joins a row whose taxid / taxpath are None)"))
                continue
            if op == "xcli" and w[1] == "genome" and P.mode == "lin" and "lineage_csv" in l and o.startswith("err ValueError:rankavail"):
                bad.append((idx, "C19:never_rejected:cli-lins-lineage-csv",
                            f"`{l}`: `tax genome --lins -F lineage_csv` dies (uncaught ValueError 'Desired Rank ... not available') when the "
                            "query is classified above the lowest LIN position: as_lineage_dict asks the popped lineage for positions it no longer has"))
                continue
            if op == "xcli" and o.startswith("err ArgumentTypeError") and P.mode == "ictv":
                bad.append((idx, "C19:never_rejected:cli-ictv-rank-refused",
                            f"`{l[:60]}`: with --ictv the command line refuses (uncaught ArgumentTypeError) every ICTV rank that is not also an NCBI rank name"))
            elif o.startswith("err"):
                bad.append((idx, "C19:never_rejected:other", f"`{l[:60]}` failed on a valid gather result: {o[:100]}"))
            continue
        ref = api.get("sum")
        if op in ("xannot", "xsqltax") and ref is not None and order is None:
            toks = [t for t in o.split()[1:] if not t.startswith("rc=")]
            if op == "xannot" and "rc=0" not in o.split():
                bad.append((idx, "C19:never_rejected:annotate", f"`tax annotate` failed on valid input: {o[:100]}"))
                continue
            got_t = sorted(parse_entries("ok " + " ".join(toks)))
            if got_t != sorted(ref):
                holes = any(lin is None or any(x is None for x in lin) for _, _, lin in rows)
                if op == "xannot" and holes:
                    bad.append((idx, "C19:taxonomy-route:with-lineages-empty-name",
                                "the with-lineages CSV written by `tax annotate`, used as the taxonomy, gives another summary than the taxonomy it came from: "
                                "a missing rank (or a match without lineage) comes back as a FILLED rank with an empty name"))
                else:
                    bad.append((idx, f"C19:taxonomy-route:{'with-lineages' if op == 'xannot' else 'sqlite'}",
                                f"`{l}`: the same taxonomy through another route gives another summary: {got_t[:2]} vs {sorted(ref)[:2]}"))
            continue
        if op == "xlingroup":
            T = spec_table(P, rows, nr)
            want = {}
            for pfx in [dec(x) for x in (w[1].split(",") if w[1] != "-" else [])]:
                r_ = len(pfx.split(";")) - 1
                if r_ in T and pfx in T[r_]:
                    want[pfx] = T[r_][pfx][1]
            got = {}
            for t in o.split()[1:]:
                lin_, pct_, bp_ = t.split("|")
                got[dec(lin_)] = (pct_, int(bp_))
            for pfx, wsum_ in want.items():
                if pfx not in got:
                    bad.append((idx, "C19:lingroup:missing", f"lingroup {pfx!r} holds {wsum_}/{W} of the query but is not reported"))
                else:
                    pct_, bp_ = got[pfx]
                    if abs(Fraction(pct_) - Fraction(100 * wsum_, W)) > Fraction(6, 1000) or bp_ not in (wsum_ * sc, wsum_ * sc - 1):
                        bad.append((idx, "C19:lingroup:values", f"lingroup {pfx!r}: {pct_}% / {bp_} bp, the matches under it hold {wsum_}/{W} / {wsum_ * sc} bp"))
            for pfx in got:
                if pfx not in want:
                    bad.append((idx, "C19:lingroup:extra", f"lingroup {pfx!r} reported but no match lies under it"))
            continue
        if op in ("human", "shuman") and o.startswith("ok"):
            vals = [Fraction(t.split("|")[1]) for t in o.split()[1:]]
            if any(vals[i] < vals[i + 1] for i in range(len(vals) - 1)):
                bad.append((idx, "C19:human:order", f"`{l}`: the human summary is not in descending order of the weighted fraction it prints: {[float(v) for v in vals][:6]}"))
        if op in ("bioboxes", "sbioboxes") and ref is not None and order is None and o.startswith("ok"):
            byl = {(r_, lin_): fw_ for r_, lin_, f_, fw_, bp_ in ref}
            for t in o.split()[1:]:
                rn_, lin_, pct_ = t.split("|")
                key = (STD.index(rn_), dec(lin_)) if rn_ in STD else None
                if key in byl and pct_ != "%.2f" % (float(byl[key]) * 100):
                    bad.append((idx, "C19:format_independent:bioboxes-percent",
                                f"`{l}`: {dec(lin_)!r} printed {pct_}% but its weighted fraction is {float(byl[key])!r}"))
                    break
        if op == "kreport" and ref is not None and order is None:
            T = spec_table(P, rows, nr)
            seen_un = False
            for t in o.split()[1:]:
                pct, bpc, bpa, code, name = t.split("|")
                name = dec(name)
                if code == "U":
                    cands = [(r, lin, f, fw, bp) for r, lin, f, fw, bp in ref if lin == "unclassified"]
                    cands = cands[:1]
                    wexp = None if not cands else W - sum(v[1] for v in T.get(cands[0][0], {}).values())
                else:
                    r = "DPCOFGS".index(code)
                    cands = [(rr, lin, f, fw, bp) for rr, lin, f, fw, bp in ref if rr == r and lin != "unclassified" and lin.split(";")[-1] == name]
                    wexp = None
                    if len(cands) == 1:
                        wexp = T.get(r, {}).get(cands[0][1], [None, None])[1]
                if len(cands) != 1:
                    continue
                fw = cands[0][3]
                if pct != "%.2f" % (float(fw) * 100):
                    bad.append((idx, "C19:format_independent:kreport-percent", f"kreport {name}: {pct}% but the table has {float(fw)!r}"))
                if wexp is not None and int(bpc) != wexp * sc:
                    sig = "C19:format_independent:kreport-bp-truncated" if int(bpc) == wexp * sc - 1 else "C19:format_independent:kreport-bp"
                    bad.append((idx, sig,
                                f"kreport {name!r}: num_bp_contained {bpc} but the matches under it hold {wexp * sc} (weighted) bp: int(f_weighted * total_bp) truncates the float product"))
        elif op == "xclsani":
            if len(o.split()) != 8:
                continue
            _, st, r, lin, f, ani, ksize, best = o.split()
            thr = Fraction(int(w[2]), int(w[3]))
            r = int(r)
            pts = [(int(x.split(":")[0]), parse_float(x.split(":")[1])) for x in best.split(",")]
            if w[1] != "-":
                pts = [p for p in pts if p[0] == int(w[1])]
            exp = None
            for rr, ff in pts:                      # lowest rank first
                a = 1.0 if ff == 1 else float(ff) ** (1.0 / int(ksize))
                if abs(a - float(thr)) < 1e-9:
                    exp = "edge"
                    break
                if a >= thr:
                    exp = ("match", rr)
                    break
                exp = ("below_threshold", rr)
            if exp != "edge" and exp is not None and (st, r) != exp:
                bad.append((idx, "C19:classification_lowest_rank:ani", f"`{l}`: reported {st} at rank {r}, expected {exp}"))
        elif op == "xcli":
            parts = dict(p.split("=", 1) for p in o.split()[1:] if "=" in p)
            if w[1] == "metagenome" and P.queries:
                sl = spec_load(P, P.queries + [(P.q, P.rows)], layout, drop_ess)
                if sl[0] is not None or sl[2]:
                    continue    # the delivery itself must be refused (query split over files, empty file), or repeats a row
            if parts.get("rc") != "0":
                bad.append((idx, "C19:never_rejected:cli", f"`{l}` exited with {parts.get('rc')} on a valid gather result"))
                continue
            if w[1] == "genome" and "cls" in parts and order is None:
                ref_c = last_cls.get((w[2], w[3], w[4]))
                if ref_c is not None and ref_c.startswith("ok ") and parts["cls"].split("|") != ref_c.split()[1:]:
                    bad.append((idx, "C19:format_independent:cli-classification",
                                f"`{l}`: the classification file differs from the in-process classification: {parts['cls'][:100]} vs {ref_c[:100]}"))
            if "csvlim" in parts and "csv" in sess_out:
                exp_l = []
                for t in sess_out["csv"].split()[1:]:
                    r_, lin_, f_, fw_, bp_ = t.split("|")
                    exp_l.append(f"{r_}|{lin_}|{float(parse_float(f_)):.3f}|{float(parse_float(fw_)):.3f}|{bp_}")
                if [x for x in parts["csvlim"].split(",") if x] != exp_l:
                    bad.append((idx, "C19:format_independent:cli-stdout", f"`{l}`: csv_summary on stdout is not the table with 3-decimal fractions"))
            if w[1] == "metagenome":
                # every file against the same writer run in-process (shared object, same writer order) just before
                for key in ("csv", "krona", "lsum", "human", "kreport", "bioboxes"):
                    if key in parts and key in sess_out:
                        got = [x for x in parts[key].split(",") if x]
                        exp_rows = sess_out[key].split()[1:]
                        if got != exp_rows:
                            sig = "cli-" + key if sorted(got) != sorted(exp_rows) else "cli-" + key + ":row-order"
                            bad.append((idx, f"C19:format_independent:{sig}",
                                        f"`{l}`: the {key} file written by the command line differs from the in-process writer: "
                                        f"{got[:3]} vs {exp_rows[:3]}"))
    return bad


def nontrivial(case, impl):
    """>= 2 gather rows with a lineage and a summarised table (or a rejection) observed"""
    P = parse_case(case)
    return len(P.rows) >= 2 and any(o.startswith("ok 0|") or o.startswith("err ValueError") for o in impl)


def classify(case, impl, model, k):
    op = case[k].split()[0] if k < len(case) and case[k].split() else "?"
    return f"C19:corr:{op}"
