"""The `compare` stream (C16): lists of compatible signatures, pairwise tables computed by the
real code (through the public SourmashSignature API, by a helper process running the adapter),
and every matrix builder of sourmash.compare on permutations of the list with every job count.

A case:
    sig <idx> <scaled> <track> <ksize> <h:a,...|->
    tab <kind> <ds> <n*n tokens>         token(a,b) = sig_a.<method>(sig_b, downsample=ds): bits | N | E<Class>
    cmp <func> <kind> <ds> <jobs|-> <perm|->
    recheck                              every matrix object handed out so far in the case (kept uncopied) still has its values

The implementation answers a `tab` line with the table IT computes (so a disagreement with the
pasted one = the pairwise API is not a function of its inputs); the model echoes the pasted table
and places it.  The oracle below is written from the property statement and never looks at the model.
"""
import atexit
import os
import struct
import subprocess
import sys

sys.path.insert(0, os.path.dirname(os.path.dirname(os.path.abspath(__file__))))
import common  # noqa: E402

MODULE = "compare"
ADAPTER = "compare_impl.py"

U64 = 2 ** 64
ONE = str(struct.unpack("<Q", struct.pack("<d", 1.0))[0])
ZERO = "0"
JOBS = [2, 3, 5, 8, 16]
SIM_KINDS = ["sim0", "sim1", "jani"]
SYMMETRIC = {"sim0", "sim1", "jani", "maxc", "maxani", "avgc", "avgani"}
ANI = {"jani", "cani", "maxani", "avgani"}
FUNCS = {"sim0": ["serial", "parallel", "allpairs"], "sim1": ["serial", "parallel", "allpairs"],
         "jani": ["serial", "parallel", "allpairs"], "cont": ["containment"], "cani": ["containment"],
         "maxc": ["max"], "maxani": ["max"], "avgc": ["avg"], "avgani": ["avg"]}

# --------------------------------------------------------------------------
# helper process: the adapter itself, used to obtain the pairwise tables

_helper = None


def _get_helper():
    global _helper
    if _helper is None or _helper.poll() is not None:
        pkg = os.path.join(common.BUILD, "pkg")
        env = dict(os.environ, PYTHONPATH=pkg + os.pathsep + os.path.join(common.VERIF, "harness"),
                   PYTHONHASHSEED="0", SOURMASH_VERIF="1")
        _helper = subprocess.Popen([common.PY, os.path.join(common.VERIF, "harness", "adapters", ADAPTER)],
                                   stdin=subprocess.PIPE, stdout=subprocess.PIPE, stderr=subprocess.DEVNULL,
                                   text=True, env=env, bufsize=1)
        atexit.register(_stop_helper)
    return _helper


def _stop_helper():
    global _helper
    if _helper is not None:
        try:
            _helper.stdin.close()
            _helper.wait(timeout=10)
        except Exception:       # noqa: BLE001
            _helper.kill()
        _helper = None


def fill_tables(lines):
    """replace every `tab <kind> <ds> ?` by the table the real code computes"""
    h = _get_helper()
    out = []
    h.stdin.write("# case\n")
    h.stdin.flush()
    if h.stdout.readline().strip() != "#":
        raise common.ToolFailure("compare table helper out of step")
    for l in lines:
        w = l.split()
        if w[0] == "sig" or (w[0] == "tab" and w[3:] == ["?"]):
            h.stdin.write(l + "\n")
            h.stdin.flush()
            r = h.stdout.readline().rstrip("\n")
            if w[0] == "tab":
                if not r.startswith("tab "):
                    raise common.ToolFailure("compare table helper: " + r)
                out.append(r)
                continue
            if r != "ok":
                raise common.ToolFailure("compare table helper refused: " + l[:80] + " -> " + r)
        out.append(l)
    return out


# --------------------------------------------------------------------------
# generator

def max_hash(scaled):
    return int(round(U64 / scaled, 0)) if scaled > 1 else U64 - 1


def gen_sigs(rng, flavour):
    """-> list of (scaled, track, ksize, {hash: abund})"""
    ksize = rng.choice([21, 31, 51, 7, 3])
    if flavour == "tiny":
        n = rng.choice([1, 1, 2, 2, 3])
    elif flavour == "big":
        n = rng.randint(12, 25)
    else:
        n = rng.choice([2, 3, 4, 5, 6, 7, 9, 12, 17])
    if flavour == "mixed":
        scaleds = rng.choice([[1, 2], [1, 2, 4, 8], [2, 3, 5], [10, 100, 1000], [1, 1000]])
    else:
        scaleds = [rng.choice([1, 2, 10, 1000])]
    top = max(scaleds)
    lo = max_hash(top)                       # hashes <= lo survive every downsampling
    psize = rng.choice([4, 12, 40, 300]) if flavour != "big" else rng.choice([40, 300, 1200])
    pool_lo = [rng.randrange(1, lo) for _ in range(psize)] + [0, lo]
    sigs = []
    for i in range(n):
        sc = rng.choice(scaleds)
        track = {"flat": 0, "abund": int(rng.random() < 0.8)}.get(flavour, int(rng.random() < 0.3))
        mh = max_hash(sc)
        r = rng.random()
        if i > 0 and r < 0.12:                # identical content to an earlier one
            hs = dict(sigs[rng.randrange(i)][3])
            hs = {h: a for h, a in hs.items() if h <= mh}
        elif r < 0.2:
            hs = {}                           # empty sketch
        elif r < 0.3:                         # disjoint from the pool
            hs = {rng.randrange(1, mh): rng.randint(1, 9) for _ in range(rng.randint(1, 6))}
        else:
            k = rng.randint(1, len(pool_lo))
            hs = {h: rng.choice([1, 1, 2, 3, 7, 250]) for h in rng.sample(pool_lo, k)}
            if mh > lo:                       # hashes that only the finer sketches keep
                for _ in range(rng.randint(0, 6)):
                    hs[rng.randrange(lo + 1, mh + 1)] = rng.randint(1, 5)
        sigs.append((sc, track, ksize, hs))
    return sigs


def gen_case(rng, flavour):
    """flavours: flat, abund, mixed (different scaled values; downsample requested most of the time),
    tiny (1..3 signatures, more jobs than rows), big (12..25 signatures)"""
    sigs = gen_sigs(rng, flavour)
    n = len(sigs)
    lines = []
    for i, (sc, track, ksize, hs) in enumerate(sigs):
        body = ",".join(f"{h}:{a}" for h, a in sorted(hs.items())) or "-"
        lines.append(f"sig {i} {sc} {track} {ksize} {body}")
    mixed = len({s[0] for s in sigs}) > 1
    kinds = list(FUNCS)
    rng.shuffle(kinds)
    kinds = kinds[:rng.choice([2, 3, 4])] if flavour != "tiny" else kinds[:5]
    if not any(k in SIM_KINDS for k in kinds):
        kinds[0] = rng.choice(SIM_KINDS)        # the parallel path exists only for these
    perms = [list(range(n))]
    p = list(range(n))
    rng.shuffle(p)
    perms.append(p)
    r = rng.random()
    if r < 0.3:
        perms.append(list(reversed(range(n))))
    elif r < 0.5 and n > 1:
        perms.append(rng.sample(range(n), rng.randint(1, n - 1)))      # a sub-list, reordered
    elif r < 0.6:
        perms.append([rng.randrange(n) for _ in range(rng.randint(1, n + 1))])   # repeats allowed
    kind_ds = {}
    for kind in kinds:
        ds = 1 if (mixed and rng.random() < 0.85) else rng.choice([0, 0, 1])
        kind_ds[kind] = ds
        lines.append(f"tab {kind} {ds} ?")
        if kind == "avgani":
            lines.append(f"tab cani {ds} ?")      # what the builder evaluates; `avgani` itself is the oracle's reference
        for pi, perm in enumerate(perms):
            ps = ",".join(map(str, perm)) or "-"
            for func in FUNCS[kind]:
                if func == "parallel":
                    # process pools are the expensive part: 2 job counts on the identity list, 1 on the others
                    js = rng.sample(JOBS, 2 if pi == 0 else 1)
                    if flavour == "tiny":
                        js = sorted(set(js + [16]))          # more workers than rows
                    if rng.random() < 0.02:
                        js.append(0)
                    for j in js:
                        lines.append(f"cmp parallel {kind} {ds} {j} {ps}")
                elif func == "allpairs":
                    for j in (["-", "1", str(rng.choice(JOBS))] if pi == 0 else [rng.choice(["-", "1", str(rng.choice(JOBS))])]):
                        lines.append(f"cmp allpairs {kind} {ds} {j} {ps}")
                else:
                    lines.append(f"cmp {func} {kind} {ds} - {ps}")
    # results are values: after every pool-based call, and at the end, all matrices handed out so far are re-read
    out = []
    for l in lines:
        out.append(l)
        if l.startswith(("cmp parallel", "cmp allpairs")):
            out.append("recheck")
    lines = out + ["recheck"]
    # the inputs are not changed by any builder: the first table, computed again at the very end, is the same
    first_tab = next((l for l in lines if l.startswith("tab ")), None)
    if first_tab is not None:
        lines.append(first_tab)
    if rng.random() < 0.03:
        k0 = [k for k in kinds if k in SIM_KINDS][0]
        lines.append(f"cmp serial {k0} {kind_ds[k0]} - -")          # empty list
        lines.append(f"cmp parallel {k0} {kind_ds[k0]} 2 -")
    return fill_tables(lines)


# --------------------------------------------------------------------------
# oracle: the property statement, evaluated on the implementation's own observations

def parse_case(case, impl):
    scaled = []
    tabs = {}
    ops = []
    for idx, (l, o) in enumerate(zip(case, impl)):
        w = l.split()
        if w[0] == "sig" and o == "ok":
            scaled.append(int(w[2]))
        elif w[0] == "tab" and o.startswith("tab "):
            ow = o.split()
            n = len(scaled)
            if len(ow) - 3 == n * n:
                tabs[(ow[1], int(ow[2]))] = [ow[3 + a * n:3 + (a + 1) * n] for a in range(n)]
        elif w[0] == "cmp" and len(w) == 6 and o != "bad-op":
            perm = [] if w[5] == "-" else [int(x) for x in w[5].split(",")]
            ops.append((idx, w[1], w[2], int(w[3]), w[4], perm, o))
    return scaled, tabs, ops


def oracle(case, impl):
    bad = []
    for idx, (l, o) in enumerate(zip(case, impl)):
        if " views=DIFF:" in o:
            bad.append((idx, "C16:views-differ", f"the matrix returned by `{l[:60]}` reads differently through: {o.split(' views=DIFF:', 1)[1][:200]}"))
        if "ROUTES-DIFFER" in o:
            bad.append((idx, "C16:pairwise-routes-differ", f"`{' '.join(l.split()[:3])}`: the same pairwise value through two spellings of the API differs: "
                        + o[o.index("ROUTES-DIFFER"):][:200]))
        if l == "recheck" and "CHANGED" in o:
            bad.append((idx, "C16:earlier-result-changed",
                        "a matrix returned by an earlier call no longer holds the values it was returned with, after: "
                        + next((case[j] for j in range(idx - 1, -1, -1) if case[j].startswith("cmp ")), "?")[:60]
                        + "; changed result(s) of: " + o.split("CHANGED", 1)[1][:200]))
    scaled, tabs, ops = parse_case(case, impl)
    seen = {}
    by_perm = {}
    for idx, func, kind, ds, jobs, perm, o in ops:
        m = len(perm)
        T = tabs.get((kind, ds))
        if T is None:
            continue
        if m == 0 or jobs == "0":
            bad.append((idx, "skip:outside-quantifier", "empty list / zero processes"))
            continue
        mixed = len({scaled[p] for p in perm}) > 1
        ani = kind in ANI

        def val(tok):
            return ZERO if (tok == "N" and ani) else tok

        # which ordered pairs does the statement need?  all a != b
        need_err = any(T[perm[a]][perm[b]].startswith("E") for a in range(m) for b in range(m) if a != b)
        if o.startswith("err"):
            if not need_err:
                bad.append((idx, f"C16:unexpected-error:{kind}:{func}",
                            f"{func}({kind}, ds={ds}, jobs={jobs}) raised {o} although every pairwise value exists"))
            continue
        if not o.startswith("mat "):
            bad.append((idx, f"C16:shape:{kind}:{func}", f"not an m x m matrix: {o[:60]}"))
            continue
        ow = o.split()
        M = [ow[2 + a * m:2 + (a + 1) * m] for a in range(m)]
        if need_err:
            if kind == "avgani" and mixed:
                # regression of C16.2 (repaired by /repo b596f84)
                bad.append((idx, "C16:avg_containment_ani:downsample-flag-ignored",
                            f"compare_serial_avg_containment(return_ani=True, downsample={bool(ds)}) returned a matrix "
                            f"where the pairwise avg_containment_ani(downsample={bool(ds)}) raises (mixed scaled)"))
            else:
                bad.append((idx, f"C16:missing-error:{kind}:{func}", "a pairwise value raises but the matrix was returned"))
            continue
        done = False
        for a in range(m):
            if M[a][a] != ONE:
                bad.append((idx, f"C16:diag:{kind}:{func}", f"M[{a}][{a}] = {M[a][a]} is not 1.0"))
                done = True
                break
        for a in range(m):
            if done:
                break
            for b in range(m):
                if a == b:
                    continue
                pa, pb = perm[a], perm[b]
                if kind in SYMMETRIC:
                    v1, v2 = val(T[pa][pb]), val(T[pb][pa])
                    if M[a][b] != M[b][a]:
                        bad.append((idx, f"C16:symm:{kind}:{func}", f"M[{a}][{b}] != M[{b}][{a}]"))
                        done = True
                        break
                    if M[a][b] != v1 or M[a][b] != v2:
                        if kind == "avgani" and mixed:
                            sig = "C16:avg_containment_ani:downsample-flag-ignored"       # regression of C16.2
                        elif v1 != v2 and kind == "maxc" and mixed and ds == 1:
                            sig = "C16:max_containment:asymmetric-pairwise-mixed-scaled"
                        elif v1 != v2:
                            sig = f"C16:asymmetric-pairwise:{kind}"
                        else:
                            sig = f"C16:entry:{kind}:{func}"
                        bad.append((idx, sig, f"{func}({kind}, ds={ds}, jobs={jobs}) perm={perm}: M[{a}][{b}]={M[a][b]} but "
                                              f"sig{pa}.f(sig{pb})={v1}, sig{pb}.f(sig{pa})={v2} (scaled {scaled[pa]},{scaled[pb]})"))
                        done = True
                        break
                else:
                    v = val(T[pb][pa])      # documented: C(A, B) = B.contained_by(A)
                    if M[a][b] != v:
                        bad.append((idx, f"C16:entry:{kind}:{func}",
                                    f"M[{a}][{b}]={M[a][b]} but sig{pb}.contained_by(sig{pa}) gives {v}"))
                        done = True
                        break
        if done:
            continue
        # the same inputs through another path / process count give the identical matrix
        key = (kind, ds, tuple(perm))
        if key in seen and seen[key][1] != M:
            bad.append((idx, f"C16:schedule:{kind}", f"{func} jobs={jobs} differs from {seen[key][0]} on the same list"))
        seen.setdefault(key, (f"{func} jobs={jobs}", M))
        # permuting the inputs permutes the matrix
        base = by_perm.get((kind, ds))
        if base is None:
            if len(set(perm)) == m:
                by_perm[(kind, ds)] = (perm, M)
        elif len(set(perm)) == m and set(perm) <= set(base[0]):
            inv = {p: i for i, p in enumerate(base[0])}
            for a in range(m):
                for b in range(m):
                    if M[a][b] != base[1][inv[perm[a]]][inv[perm[b]]]:
                        bad.append((idx, f"C16:perm:{kind}", f"perm {perm} vs {base[0]}: cell ({a},{b}) differs"))
                        break
                else:
                    continue
                break
    return bad


def nontrivial(case, impl):
    """at least one m x m matrix with m >= 3 and >= 3 distinct off-diagonal values, computed by >= 2 paths"""
    n_big = 0
    for l, o in zip(case, impl):
        if l.startswith("cmp ") and o.startswith("mat "):
            ow = o.split()
            m = int(ow[1])
            if m >= 3:
                off = {ow[2 + a * m + b] for a in range(m) for b in range(m) if a != b}
                if len(off) >= 3:
                    n_big += 1
    return n_big >= 2
