"""The `partition` correspondence stream (C08): the same sketches organised in different ways.

One case = a query, a pool of database sketches, and several *organisations* of that pool: the reference
(one LinearIndex holding everything in creation order) and 2-4 others obtained by splitting the pool into
1..4 collections, shuffling the insertion order and picking a container type per collection
(LinearIndex, LazyLinearIndex (= `--linear`), zip, SBT, LCA database, SqliteIndex; files under .build/tmp,
removed by the adapter).
Against every organisation the case runs
  * `searchc`  : search_databases_with_flat_query (jaccard / containment / max-containment, thresholds on score
                 boundaries, best-only on/off) -- printed as a canonical multiset of (md5, score)
  * `pfallc`   : prefetch over all collections -- canonical multiset of (md5, containment)
  * `xpfc`     : what `sourmash prefetch` reports (search.prefetch_database: the rows of Index.prefetch that pass
                 PrefetchResult.pass_threshold, score = f_match_query) -- canonical multiset, implementation-only
  * `xsa`      : search_databases_with_abund_query (abundance query against abundance sketches, angular similarity)
                 -- canonical multiset, implementation-only
  * `xgd/xnext`: gather in prefetch mode and in on-demand (`Index.peek`) mode -- per round md5 and all numbers
and, for organisations made of list-like containers only (LinearIndex / zip keep insertion order), the exact
`search` / `pfall` / `gd` / `next` ops of the gather stream, which the model predicts including order and ties.

The model (same driver as the gather stream) treats every container as the list of its signatures and prints
`x` for `xgd` / `xnext`, whose tie-breaking depends on container-internal iteration order; those observations
are judged by the oracle only: all organisations of a case must agree, except for the choice among exactly
tied candidates.
"""
import os
import sys

sys.path.insert(0, os.path.dirname(os.path.dirname(os.path.abspath(__file__))))
import common  # noqa: E402
from streams import gather as G  # noqa: E402

MODULE = "gather"
ADAPTER = "gather_impl.py"

FLAVOURS = ["gather", "search", "gather", "mixed-search", "gather", "search", "abund-search"]
KINDS_LIST = ["lin", "lin", "zip", "lazy"]
KINDS_X = ["sbt", "lca", "sql"]


def same(a, b):
    if a.startswith("x") and b.startswith("x"):
        return True          # impl-only observation (see module docstring); judged by the oracle
    return G.same(a, b)


def gen_case(rng, flavour):
    lines = []
    s1, s2, s3 = rng.choice(G.SCALED_TRIPLES)
    mixed = flavour == "mixed-search"
    r = rng.random()
    if mixed:
        sq = rng.choice([s1, s2, s3])
        db_scaleds = rng.sample([s1, s2, s3], rng.randint(2, 3))
    elif r < 0.5:
        sq = rng.choice([s1, s2, s3]); db_scaleds = [sq]
    elif r < 0.75:
        sq = rng.choice([s2, s3]); db_scaleds = [s1]          # database finer
    else:
        sq = rng.choice([s1, s2]); db_scaleds = [s3]          # database coarser
    all_scaled = sorted(set([sq] + db_scaleds))
    nq = rng.randint(5, 60)
    U = G.universe(rng, all_scaled, nq + rng.randint(5, 30))
    Mq = G.mh_for_scaled(sq)
    Uq = [h for h in U if h <= Mq]
    Mc = G.mh_for_scaled(max(all_scaled))
    low = [h for h in Uq if h <= Mc]
    Q = set(rng.sample(Uq, min(nq, len(Uq))))
    if low and len([h for h in Q if h <= Mc]) < 3:
        Q |= set(rng.sample(low, min(len(low), 4)))
    track = (flavour == "gather" and rng.random() < 0.4) or flavour == "abund-search"
    abund = {h: rng.choice([1, 1, 2, 3, 5, 20]) for h in Q} if track else None
    lines.append(G.sig_line(0, 1000, sq, Q, abund))
    structure = rng.choice(["nested", "chained", "chained", "tied", "duplicate", "covering", "random", "random"])
    nsk = rng.randint(2, 8)
    sets = G.make_dbs(rng, Q, U, structure, nsk)
    sk = []
    sc_of = {}
    has_ab = set()
    for i, hs in enumerate(sets):
        sc = rng.choice(db_scaleds)
        ab = {h: rng.randint(1, 9) for h in hs} if (rng.random() < 0.2 or flavour == "abund-search") else None
        lines.append(G.sig_line(1 + i, 1 + i, sc, hs, ab))
        sk.append(1 + i)
        sc_of[1 + i] = sc
        if ab is not None:
            has_ab.add(1 + i)
    if mixed and len(sk) >= 2 and rng.random() < 0.5:
        # the same hash set stored at two scaled values (same md5): hashes below every threshold
        lowest = [h for h in U if h <= Mc]
        if lowest:
            hs = set(rng.sample(lowest, min(len(lowest), rng.randint(1, 5))))
            a, b = rng.sample(all_scaled, 2) if len(all_scaled) >= 2 else (all_scaled[0], all_scaled[0])
            for sc in (a, b):
                slot = 1 + len(sk)
                lines.append(G.sig_line(slot, slot, sc, hs))
                sk.append(slot)
                sc_of[slot] = sc
    # organisations: list of lists of (dbslot, kind, [sig slots])
    orgs = []
    next_db = 0
    orgs.append([(next_db, "lin", list(sk))])
    next_db += 1
    for _ in range(rng.randint(2, 3)):
        k = rng.randint(1, min(4, len(sk)))
        order = list(sk)
        rng.shuffle(order)
        parts = [p for p in (order[i::k] for i in range(k)) if p]
        org = []
        exotic_ok = rng.random() < 0.5
        for p in parts:
            one_scaled = len({sc_of[x] for x in p}) == 1
            kind = rng.choice(KINDS_X) if (exotic_ok and one_scaled and rng.random() < 0.6) else rng.choice(KINDS_LIST)
            if flavour == "abund-search" and kind in ("sql", "lca"):
                kind = "sbt"          # neither keeps abundances
            if kind == "sql" and any(x in has_ab for x in p):
                kind = "sbt"          # SqliteIndex refuses sketches with abundance (documented)
            org.append((next_db, kind, p))
            next_db += 1
        orgs.append(org)
    for org in orgs:
        for slot, kind, p in org:
            if kind == "lin":
                lines.append(f"db {slot} " + " ".join(map(str, p)))
            else:
                lines.append(f"xdb {slot} {kind} " + " ".join(map(str, p)))
    sc_cmp = max([sq] + db_scaleds)
    if flavour == "abund-search":
        # search_databases_with_abund_query (angular similarity of abundance sketches; what `sourmash search` does for
        # an abundance query): implementation-only observation, every organisation must give the same rows
        for _ in range(rng.randint(1, 2)):
            tnum, tden = rng.choice([(0, 1), (0, 1), (1, 10), (1, 2), (1, 1)])
            bo = int(rng.random() < 0.2)
            for org in orgs:
                dbs = " ".join(str(s) for s, _, _ in org)
                lines.append(f"xsa {bo} {tnum} {tden} 0 {dbs}")
        return lines
    if flavour in ("search", "mixed-search"):
        for _ in range(rng.randint(1, 3)):
            st = rng.choice(["j", "c", "m"])
            bo = int(rng.random() < 0.25)
            r = rng.random()
            if r < 0.3:
                tnum, tden = 0, 1
            elif r < 0.8:
                tden = rng.randint(1, max(1, len(Q)))
                tnum = rng.randint(0, tden)                      # on a k/n boundary
            else:
                tnum, tden = rng.choice([(8, 100), (1, 2), (1, 1), (1, 10)])
            for org in orgs:
                dbs = " ".join(str(s) for s, _, _ in org)
                if all(k in ("lin", "zip", "lazy") for _, k, _ in org) and not bo:
                    lines.append(f"search {st} {bo} {tnum} {tden} 0 {dbs}")
                lines.append(f"searchc {st} {bo} {tnum} {tden} 0 {dbs}")
        thr = rng.choice([0, 0, rng.randint(1, 3 * sc_cmp), rng.randint(1, 6) * sc_cmp])
        for org in orgs:
            dbs = " ".join(str(s) for s, _, _ in org)
            if all(k in ("lin", "zip", "lazy") for _, k, _ in org):
                lines.append(f"pfall 0 {thr} {dbs}")
            lines.append(f"pfallc 0 {thr} {dbs}")
            lines.append(f"xpfc 0 {thr} {dbs}")
        return lines
    # gather flavour: database sketches at one scaled value
    r = rng.random()
    if r < 0.45:
        thr = 0
    elif r < 0.85:
        thr = max(0, rng.randint(1, 5) * sc_cmp + rng.choice([0, 0, -1, 1]))
    else:
        thr = rng.randint(1, 3 * sc_cmp)
    ign = int(rng.random() < 0.3)
    nrounds = len(sk) + 2
    cslot = 0
    for oi, org in enumerate(orgs):
        dbs = [s for s, _, _ in org]
        listlike = all(k in ("lin", "zip", "lazy") for _, k, _ in org)
        for mode in ("p", "o"):
            lines.append(f"xgd 0 {thr} {ign} {mode} " + " ".join(map(str, dbs)))
            lines.extend(["xnext"] * nrounds)
        if listlike and rng.random() < 0.7:
            mode = rng.choice(["p", "o"])
            if mode == "p":
                cs = []
                for d in dbs:
                    lines.append(f"cg {cslot} {d} 0 {thr}")
                    cs.append(f"c{cslot}")
                    cslot += 1
            else:
                cs = [f"i{d}" for d in dbs]
            lines.append(f"gd 0 {thr} {ign} - - " + " ".join(cs))
            lines.extend(["next"] * nrounds)
    return lines


# --------------------------------------------------------------------------
# oracle: every organisation of a case gives the same results (up to the choice among exact ties)

def brute_search(sigs, q, members, st, bo, tnum, tden):
    """the property's reference: one linear scan over all sketches, one row per distinct (md5, scaled) sketch
    (canonical text)"""
    thr = tnum / tden
    rows = {}
    for k in members:
        d = sigs[k]
        s = max(q["scaled"], d["scaled"])
        Qs, Ds = G.down(q["hashes"], s), G.down(d["hashes"], s)
        shared, total = len(Qs & Ds), len(Qs | Ds)
        if st == "j":
            score = shared / total if total else 0
        elif st == "c":
            score = shared / len(Qs) if Qs else 0
        else:
            m = min(len(Qs), len(Ds))
            score = shared / m if m else 0
        if score and score >= thr:
            # de-duplication key of search_databases_with_flat_query: (md5, scaled, num)
            rows.setdefault((d["md5"], d["scaled"]), set()).add(float(score))
    if any(len(v) > 1 for v in rows.values()):
        return None
    r = sorted((-next(iter(v)), k[0]) for k, v in rows.items())
    if bo:
        return "ok " + (G.canonF(-r[0][0]) if r else "")
    return ("ok " + ",".join(f"{m}:{G.canonF(-sc)}" for sc, m in r)).rstrip() if r else "ok "


D6_SIG = "C08:gather-mode-or-organisation-dependence:query-finer-than-db:threshold_bp>0"
# finding C08.5 (fixed): `sourmash prefetch` / search.prefetch_database died on `assert result.pass_threshold`
PF_ASSERT_SIG = "C08:cli:prefetch-AssertionError:query-finer-than-db:threshold_bp>0"


def oracle(case, impl):
    # (the order dependence of the GatherResult dict views is reported by C07)
    bad = [b for b in G.view_violations(case, impl, "C08") if "gatherresultdict-after-prefetchresultdict" not in b[1] and "rejects-mutable-query" not in b[1]]
    impl = [G.strip_views(o) if " V=" in o else o for o in impl]
    sigs, _ = G.parse_case(case)
    q = sigs.get(0)
    groups = {}          # key -> list of (idx, observation)
    runs = []            # (idx, key, mode, [round observations])
    cur = None
    for idx, (op, obs) in enumerate(zip(case, impl)):
        w = op.split()
        if obs.endswith(" L=ok"):
            obs = obs[:-5]
        if w[0] in ("search", "searchc") and obs.startswith("err ValueError:varN"):
            bad.append((idx, "C08:search-raises-ValueError-varN<0-from-jaccard-ani",
                        f"`{op[:70]}`: building a SearchResult raised 'varN <0.0' (jaccard_to_distance, finding D16)"))
            continue
        if w[0] == "xpfc" and obs.startswith("x err AssertionError"):
            finer = q is not None and int(w[2]) > 0 and any(
                sg["scaled"] > q["scaled"] for k, sg in sigs.items() if 0 < k < 60)
            bad.append((idx, PF_ASSERT_SIG if finer else "C08:prefetch-database-raises:AssertionError",
                        f"`{op[:70]}`: search.prefetch_database raised AssertionError (a row of Index.prefetch below "
                        f"threshold_bp; regression of finding C08.5)"))
            continue
        if w[0] == "xsa":
            groups.setdefault(("xsa",) + tuple(w[1:5]), []).append((idx, obs[2:]))
            continue
        if w[0] in ("searchc", "pfallc", "xpfc"):
            key = (w[0],) + tuple(w[1:6] if w[0] == "searchc" else w[1:3])
            groups.setdefault(key, []).append((idx, obs[2:] if w[0] == "xpfc" else obs))
        elif w[0] == "xgd":
            cur = {"idx": idx, "key": tuple(w[1:4]), "mode": w[4], "rounds": [], "ok": obs.startswith("x ok")}
            runs.append(cur)
        elif w[0] == "xnext" and cur is not None:
            cur["rounds"].append((idx, obs))
    containers = {}       # db slot -> (kind, [sig slots])
    for l in case:
        w = l.split()
        if w[0] == "db":
            containers[int(w[1])] = ("lin", [int(x) for x in w[2:]])
        elif w[0] == "xdb":
            containers[int(w[1])] = (w[2], [int(x) for x in w[3:]])
    by_md5 = {}
    for k, sg in sigs.items():
        by_md5.setdefault(sg["md5"], []).append(k)
    for key, obs in groups.items():
        ref_idx, ref = obs[0]
        todo = obs[1:]
        if key[0] == "searchc" and q is not None and not q["track"]:
            # reference from the statement itself: a linear scan over the sketches of this organisation
            w0 = case[ref_idx].split()
            mem = [m for d in w0[6:] for m in containers.get(int(d), ("?", []))[1]]
            try:
                exp = brute_search(sigs, q, mem, key[1], bool(int(key[2])), int(key[3]), int(key[4]))
            except (KeyError, ZeroDivisionError):
                exp = None
            if exp is not None:
                ref, todo = exp, obs
        for idx, o in todo:
            if o.rstrip() == ref.rstrip():
                continue
            what = "search" if key[0] == "searchc" else "prefetch"
            sig = f"C08:{what}-depends-on-organisation"
            w = case[idx].split()
            dbslots = [int(x) for x in (w[6:] if w[0] == "searchc" else w[5:] if w[0] == "xsa" else w[3:])]
            if key[0] == "xsa":
                what, sig = "search", "C08:abund-search-depends-on-organisation"
                # md5 covers the hashes only: sketches with the same hashes and different abundances share the
                # de-duplication key of search_databases_with_abund_query but not the angular similarity
                pool = [k for k in sigs if 0 < k < 60]
                if any(sigs[a]["md5"] == sigs[b]["md5"] and sigs[a]["hashes"] != sigs[b]["hashes"]
                       for a in pool for b in pool if a < b):
                    sig = "C08:abund-search-md5-dedup-ignores-abundance"
                bad.append((idx, sig,
                            f"`{case[idx][:70]}` gives {o[:160]} but the single collection gives {ref[:160]}"))
                continue
            if key[0] == "xpfc":
                what, sig = "prefetch", "C08:prefetch-database-depends-on-organisation"
            if key[0] == "searchc" and key[2] == "1" and o.startswith("ok") and ref.startswith("ok"):
                # best-only prints the top score only: the same hashes at two scaled values can change it
                members = {m for d in dbslots for m in containers.get(d, ("?", []))[1]}
                dup = [m for m, ks in by_md5.items()
                       if len({sigs[k]["scaled"] for k in ks if k in members}) > 1]
                if dup:
                    sig = "C08:search-md5-dedup-keeps-first-of-same-hashes-at-different-scaled"
            elif o.startswith("ok") and ref.startswith("ok"):
                A = set(o[3:].split(",")) - {""}
                B = set(ref[3:].split(",")) - {""}
                missing = {x.split(":")[0] for x in B - A} - {x.split(":")[0] for x in A - B}
                changed = {x.split(":")[0] for x in B - A} & {x.split(":")[0] for x in A - B}
                # (1) rows missing: only from SBT collections, query coarser than the stored sketch
                if missing and not changed and not (A - B):
                    culprit = []
                    for m in missing:
                        for slot in by_md5.get(int(m), []):
                            for d in dbslots:
                                kind, members = containers.get(d, ("?", []))
                                if slot in members:
                                    culprit.append((kind, sigs[slot]["scaled"]))
                    kinds = {k for k, _ in culprit}
                    if culprit and len(kinds) == 1 and kinds <= {"sbt", "sql"} \
                            and all(sc < q["scaled"] for _, sc in culprit):
                        sig = f"C08:{kinds.pop()}-search-misses-match:query-coarser-than-stored-sketch"
                # (2) same md5, different score: the same hashes stored at two scaled values / de-duplication
                if changed and not missing:
                    if all(len({sigs[k]["scaled"] for k in by_md5.get(int(m), [])}) > 1 for m in changed):
                        sig = f"C08:{what}-md5-dedup-keeps-first-of-same-hashes-at-different-scaled"
            bad.append((idx, sig,
                        f"`{case[idx][:70]}` gives {o[:160]} but the single collection gives {ref[:160]}"))
    # gather runs
    if runs and q is not None:
        ref = runs[0]
        db_scaleds = {s["scaled"] for k, s in sigs.items() if 0 < k < 60}
        finer = len(db_scaleds) == 1 and q["scaled"] < next(iter(db_scaleds)) and int(ref["key"][1]) > 0
        for r in runs[1:]:
            if r["key"] != ref["key"]:
                continue
            for (i1, a), (i2, b) in zip(ref["rounds"], r["rounds"]):
                if a == b:
                    if not a.startswith("x ok"):
                        break
                    continue
                da, db_ = G.parse_kv(a[2:]), G.parse_kv(b[2:])
                if a.startswith("x ok") and b.startswith("x ok"):
                    if da.get("md5") != db_.get("md5") and da.get("ubp") == db_.get("ubp") \
                            and da.get("rank") == db_.get("rank"):
                        break         # an exact tie resolved differently: the runs legitimately diverge
                    if da.get("md5") == db_.get("md5") and G.same(a, b):
                        continue
                sig = "C08:gather-depends-on-organisation-or-mode"
                if finer:
                    sig = D6_SIG
                bad.append((i2, sig,
                            f"gather run `{case[r['idx']][:60]}` differs from `{case[ref['idx']][:60]}`: "
                            f"{b[:110]} vs {a[:110]}"))
                break
    return bad


def nontrivial(case, impl):
    n = sum(1 for op, o in zip(case, impl) if op.startswith("xnext") and o.startswith("x ok"))
    m = sum(1 for op, o in zip(case, impl) if op.startswith("searchc") and o.count(":") >= 2)
    return n >= 4 or m >= 2


def classify(case, impl, model, k):
    op = case[k].split()[0] if k < len(case) and case[k].split() else "?"
    if k < len(impl) and " V=" in impl[k]:
        return "C08:views-disagree:" + impl[k].split(" V=", 1)[1].split()[0]
    if k < len(model) and "L=DIFF" in model[k]:
        return f"C08:corr:list-sketch-instance-differs:{op}"
    return f"C08:corr:{op}"
