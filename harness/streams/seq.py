"""The `seq` correspondence stream (C02): one base sequence per case, pushed through every
public sequence entry point (seq_to_hashes, kmers_and_hashes, add_sequence, add_protein,
hash_murmur) with related variants (reverse complement, other letter case, two pieces
overlapping by k-1, record by record).

The property oracle below is written from the property statement only: its own
MurmurHash3 (from the published algorithm, as utils/compute-dna-mh-another-way.py uses
mmh3), its own window logic, an independently typed standard genetic code and
Dayhoff / HP classes.  It never looks at the Lean model's output.
"""
import functools
import os
import sys

sys.path.insert(0, os.path.dirname(os.path.dirname(os.path.abspath(__file__))))

MODULE = "seq"
ADAPTER = "seq_impl.py"
M64 = (1 << 64) - 1

MOLS = ["dna", "protein", "dayhoff", "hp"]
KS = [1, 2, 3, 4, 7, 21, 31]
SEEDS = [0, 42, 42, 42, M64, 1, 2 ** 32, 2 ** 63]


# --------------------------------------------------------------------------
# independent reference pieces

def _rotl(x, r):
    return ((x << r) | (x >> (64 - r))) & M64


def _fmix(k):
    k ^= k >> 33
    k = (k * 0xff51afd7ed558ccd) & M64
    k ^= k >> 33
    k = (k * 0xc4ceb9fe1a85ec53) & M64
    k ^= k >> 33
    return k


@functools.lru_cache(maxsize=1 << 18)
def murmur64(data, seed):
    """MurmurHash3_x64_128, low 64-bit word (what mmh3.hash64(x, seed)[0] returns, unsigned),
    with a 64-bit seed in both lanes"""
    c1, c2 = 0x87c37b91114253d5, 0x4cf5ad432745937f
    h1 = h2 = seed & M64
    n = len(data)
    nb = n // 16
    for i in range(nb):
        k1 = int.from_bytes(data[16 * i:16 * i + 8], "little")
        k2 = int.from_bytes(data[16 * i + 8:16 * i + 16], "little")
        k1 = (_rotl((k1 * c1) & M64, 31) * c2) & M64
        h1 ^= k1
        h1 = ((_rotl(h1, 27) + h2) * 5 + 0x52dce729) & M64
        k2 = (_rotl((k2 * c2) & M64, 33) * c1) & M64
        h2 ^= k2
        h2 = ((_rotl(h2, 31) + h1) * 5 + 0x38495ab5) & M64
    tail = data[16 * nb:]
    if len(tail) > 8:
        k2 = int.from_bytes(tail[8:], "little")
        h2 ^= (_rotl((k2 * c2) & M64, 33) * c1) & M64
    if len(tail) > 0:
        k1 = int.from_bytes(tail[:8], "little")
        h1 ^= (_rotl((k1 * c1) & M64, 31) * c2) & M64
    h1 ^= n
    h2 ^= n
    h1 = (h1 + h2) & M64
    h2 = (h2 + h1) & M64
    h1, h2 = _fmix(h1), _fmix(h2)
    return (h1 + h2) & M64


ACGT = b"ACGT"
_COMP = {65: 84, 67: 71, 71: 67, 84: 65}
# NCBI translation table 1, bases in the order T C A G
_STD = "FFLLSSSSYY**CC*WLLLLPPPPHHQQRRRRIIIMTTTTNNKKSSRRVVVVAAAADDEEGGGG"
_B = "TCAG"
STD_CODE = {(a + b + c).encode(): ord(_STD[16 * i + 4 * j + l])
            for i, a in enumerate(_B) for j, b in enumerate(_B) for l, c in enumerate(_B)}
DAYHOFF = {}
for cls, letters in (("a", "C"), ("b", "AGPST"), ("c", "DENQ"), ("d", "HKR"), ("e", "ILMV"), ("f", "FWY"), ("*", "*")):
    for ch in letters:
        DAYHOFF[ord(ch)] = ord(cls)
HP = {}
for cls, letters in (("h", "AFGILMPVWY"), ("p", "NCSTDERHKQ"), ("*", "*")):
    for ch in letters:
        HP[ord(ch)] = ord(cls)
AA20 = b"ACDEFGHIKLMNPQRSTVWY*"


ZERO_SIG = "C02:zero-hash-is-skip-marker"


def up(bs):
    return bytes(b - 32 if 97 <= b <= 122 else b for b in bs)


def is_acgt(w):
    return all(b in ACGT for b in w)


def rc(w):
    return bytes(_COMP[b] for b in reversed(w))


def windows(s, k):
    return [s[i:i + k] for i in range(len(s) - k + 1)] if k >= 1 else []


def reenc(mol, aa):
    if mol == "protein":
        return bytes(aa)
    t = DAYHOFF if mol == "dayhoff" else HP
    return bytes(t.get(b, 88) for b in aa)


def expect_dna(s, k, seed, force):
    """-> ('err', None) | ('ok', [hash or None per window])  (None = window with a non-ACGT byte)"""
    res = []
    for w in windows(up(s), k):
        if is_acgt(w):
            res.append(murmur64(min(w, rc(w)), seed))
        elif force:
            res.append(None)
        else:
            return "err", None
    return "ok", res


def expect_protein(mol, s, k, seed):
    return [murmur64(w, seed) for w in windows(reenc(mol, up(s)), k)]


# the eight codon families whose amino acid does not depend on the third base (derived from the
# standard code above, not from the code under test): the only place where an N can be translated
FOURFOLD = {a + b for a in _B for b in _B if len({_STD[16 * _B.index(a) + 4 * _B.index(b) + l] for l in range(4)}) == 1}


def ref_codon(c):
    """residue of one upper-case codon by the statement: standard table; a codon with a letter that is
    not A/C/G/T has no standard translation -> X, except xyN of a four-fold degenerate family"""
    if is_acgt(c):
        return STD_CODE[bytes(c)]
    if c[2] == 78 and is_acgt(c[:2]) and bytes(c[:2]).decode() in FOURFOLD:
        return STD_CODE[bytes(c[:2]) + b"A"]
    return 88


def rc_any(u):
    """reverse complement of ANY upper-case byte string the way the documented complement does it:
    A<->T, C<->G, N->N; a letter without a complement becomes a byte that is no letter (0)"""
    return bytes({65: 84, 67: 71, 71: 67, 84: 65, 78: 78}.get(b, 0) for b in reversed(u))


def translate_ref(strand, f):
    return bytes(ref_codon(strand[i:i + 3]) for i in range(f, len(strand) - 2, 3))


def six_frames(mol, s, k, seed):
    """hashes of all six reading frames of an ASCII sequence (any letters), frame by frame"""
    u = up(s)
    out = []
    for f in range(3):
        for strand in (u, rc_any(u)):
            out += [murmur64(w, seed) for w in windows(reenc(mol, translate_ref(strand, f)), k)]
    return out


def is_ascii(bs):
    return all(b < 128 for b in bs)


# --------------------------------------------------------------------------
# generator

def hx(bs):
    return bytes(bs).hex() or "-"


def unhx(h):
    return b"" if h == "-" else bytes.fromhex(h)


def utf8_ok(bs):
    try:
        bytes(bs).decode("utf-8")
        return True
    except UnicodeDecodeError:
        return False


IUPAC = b"RYKMSWBDHVN"
ODD_ASCII = [0, 32, 10, 45, 62, 42, 46, 48, 64, 91, 96, 123, 127, 85, 117]   # NUL ' ' \n - > * . 0 @ [ ` { DEL U u
UTF8_CHARS = ["é".encode(), "€".encode(), "𝄞".encode(), "ß".encode(), " ".encode(), "İ".encode()]


def gen_seq(rng, n, kind):
    out = bytearray()
    while len(out) < n:
        r = rng.random()
        if kind == "acgt":
            out.append(rng.choice(ACGT))
        elif kind == "n":
            out.append(78 if r < 0.08 else rng.choice(ACGT))
        elif kind == "iupac":
            out.append(rng.choice(IUPAC) if r < 0.12 else rng.choice(ACGT))
        elif kind == "aa":
            out.append(rng.choice(AA20) if r < 0.95 else rng.choice(b"XBZJUO"))
        elif kind == "ascii":
            out.append(rng.choice(ODD_ASCII) if r < 0.10 else (rng.choice(IUPAC) if r < 0.15 else rng.choice(ACGT)))
        elif kind == "utf8":
            if r < 0.08:
                out += rng.choice(UTF8_CHARS)
            else:
                out.append(rng.choice(ACGT))
        else:   # raw
            out.append(rng.randrange(128, 256) if r < 0.06 else (rng.randrange(0, 128) if r < 0.10 else rng.choice(ACGT)))
    out = out[:n] if kind != "utf8" else out
    if kind == "utf8" and not utf8_ok(out):
        out = bytearray(bytes(out).decode("utf-8", "ignore").encode())
    return bytes(out)


def mixcase(rng, s, p):
    return bytes((b + 32 if 65 <= b <= 90 and rng.random() < p else b) for b in s)


def pick_len(rng, k_nt):
    r = rng.random()
    if r < 0.45:
        return max(0, rng.choice([k_nt - 2, k_nt - 1, k_nt, k_nt + 1, k_nt + 2, 0, 1, 2, 3 * k_nt - 1, 3 * k_nt,
                                  3 * k_nt + 1]))
    return rng.randint(0, 80)


def gen_case(rng, flavour):
    """flavour in dna | translate | protein | malformed"""
    lines = []
    seed = rng.choice(SEEDS)
    if flavour == "dna":
        mol = "dna"
    elif flavour == "malformed":
        mol = rng.choice(["dna", "dna", "protein", "hp"])
    else:
        mol = rng.choice(["protein", "dayhoff", "hp"])
    k = rng.choice(KS)
    if mol != "dna" and flavour != "protein" and k > 7 and rng.random() < 0.7:
        k = rng.choice([1, 2, 3, 4, 7])
    if flavour == "protein":
        n = min(80, pick_len(rng, k))
        kind = "aa"
    else:
        k_nt = k if mol == "dna" else 3 * k
        n = min(80, pick_len(rng, k_nt))
        kind = rng.choice(["acgt", "acgt", "acgt", "n", "iupac"]) if flavour != "malformed" else \
            rng.choice(["ascii", "utf8", "raw", "iupac"])
    s = gen_seq(rng, n, kind)
    if rng.random() < 0.4:
        s = mixcase(rng, s, rng.choice([0.1, 0.5, 1.0]))
    mode = "str" if utf8_ok(s) and rng.random() < 0.8 else "bytes"
    isprot = 1 if flavour == "protein" or (flavour == "malformed" and mol != "dna" and rng.random() < 0.3) else 0
    H = hx(s)
    # hash_murmur on one window and on a prefix
    if len(s) >= 1:
        i = rng.randrange(len(s))
        lines.append(f"murmur {seed} {hx(s[i:i + k])}")
    lines.append(f"murmur {rng.choice(SEEDS)} {hx(s[:rng.randint(0, 40)])}")
    # translate_codon / aa_to_dayhoff / aa_to_hp, the small FFI helpers
    r = rng.random()
    if r < 0.5:
        cod = bytes(rng.choice(b"ACGTACGTACGTNRYacgtn*X") for _ in range(rng.choice([3, 3, 3, 3, 2, 1, 0, 4])))
        if rng.random() < 0.03:
            cod = rng.choice([b"AC\0", "é".encode() + b"A", b"\xffAA", b"A\0\0"])
        lines.append(f"codon {hx(cod)}")
    if r > 0.6:
        lines.append(f"aa {rng.choice(['dayhoff', 'hp'])} {rng.choice(list(AA20) + list(b'XBZJUOacdx') + [0, 255, 128])}")
    # seq_to_hashes in every mode
    for force, baz in ((0, 0), (1, 0), (1, 1)):
        lines.append(f"s2h {mol} {k} {seed} {force} {baz} {isprot} {mode} {H}")
    if rng.random() < 0.1:
        lines.append(f"s2h {mol} {k} {seed} 0 1 {isprot} {mode} {H}")
        lines.append(f"s2h dna {k} {seed} 0 0 1 {mode} {H}")
    if mode == "str" and rng.random() < 0.3:
        lines.append(f"s2h {mol} {k} {seed} 1 0 {isprot} bytes {H}")
    if not isprot and is_ascii(s):
        # strand symmetry: the reverse complement (code's own complement table) must give the same multiset
        lines.append(f"s2h {mol} {k} {seed} 1 0 0 bytes {hx(mixcase(rng, rc_any(up(s)), 0.2))}")
    # the command line: `sourmash sketch dna|translate|protein` on a FASTA file of the records
    if k >= 1 and len(s) >= 1 and all(65 <= b <= 90 or 97 <= b <= 122 or b == 42 for b in s) and rng.random() < 0.35:
        extra_rec = gen_seq(rng, rng.randint(1, 25), "aa" if isprot else "acgt")
        lines.append(f"sketch {mol} {k} {seed} {0 if isprot else rng.randint(0, 1)} {isprot} {H} {hx(extra_rec)}")
    # kmers_and_hashes (ASCII only)
    if all(b < 128 for b in s):
        lines.append(f"kah {mol} {k} {seed} 0 {isprot} {H}")
        lines.append(f"kah {mol} {k} {seed} 1 {isprot} {H}")
    # add_sequence / add_protein: whole, record by record, two overlapping pieces, rc, other case
    if isprot:
        lines.append(f"addprot {mol} {k} {seed} {H}")
        cut = rng.randint(0, len(s))
        lines.append(f"addprot {mol} {k} {seed} {hx(s[:cut])} {hx(s[max(0, cut - (k - 1)):])}")
        lines.append(f"addprot {mol} {k} {seed} {hx(mixcase(rng, up(s), 0.5))}")
        if rng.random() < 0.1:
            lines.append(f"addprot dna {k} {seed} {H}")
    else:
        k_nt = k if mol == "dna" else 3 * k
        for force in (0, 1):
            lines.append(f"addseq {mol} {k} {seed} {force} {H}")
        force = rng.randint(0, 1)
        cut = rng.randint(0, len(s))
        lo = max(0, cut - (k_nt - 1))
        lines.append(f"addseq {mol} {k} {seed} {force} {hx(s[:cut])} {hx(s[lo:])}")
        u = up(s)
        if is_acgt(u):
            lines.append(f"addseq {mol} {k} {seed} {force} {hx(mixcase(rng, rc(u), 0.3))}")
        else:
            lines.append(f"addseq {mol} {k} {seed} {force} {hx(mixcase(rng, u, 0.5))}")
        s2 = gen_seq(rng, rng.randint(0, 30), "acgt")
        lines.append(f"addseq {mol} {k} {seed} {force} {H} {hx(s2)}")
    return lines


# --------------------------------------------------------------------------
# property oracle (from the statement)

def _parse_counts(txt):
    d = {}
    if txt:
        for p in txt.split(","):
            h, _, c = p.partition(":")
            d[int(h)] = int(c)
    return d


def _ms(hashes):
    d = {}
    for h in hashes:
        d[h] = d.get(h, 0) + 1
    return d


def _expect_add(mol, k, seed, force, rec, isprot):
    """what feeding ONE record must offer to the sketch, by the statement:
    -> (status, multiset) ; status 'ok' | 'err' | 'unspecified'"""
    if isprot:
        if mol == "dna":
            return "unspecified", None
        return "ok", _ms(expect_protein(mol, rec, k, seed))
    if mol == "dna":
        st, hs = expect_dna(rec, k, seed, force)
        if st == "err":
            return "err", None
        return "ok", _ms(h for h in hs if h is not None)
    if not is_ascii(rec):
        return "unspecified", None          # non-UTF-8 / non-ASCII bytes in a codon: panic domain, not judged
    if len(rec) < 3 * k:
        return "ok", {}
    return "ok", _ms(six_frames(mol, rec, k, seed))


def _cut_nul(b):
    return b.split(b"\0")[0]


def check_op(line, out):
    """-> None | (signature, message)"""
    w = line.split()
    if not w or out == "bad-op":
        return None
    op = w[0]
    if " VIEW:" in out:
        what = out.split(" VIEW:")[1]
        return "C02:view:" + what.split("+")[0], (
            f"`{line}`: two routes / views of the same thing disagree in the real code: {what} "
            f"(observation: {out.split(' VIEW:')[0][:80]})")
    try:
        if op == "sketch":
            check, isprot = w[4] == "1", w[5] == "1"
            if isprot:
                line2 = " ".join(["addprot", w[1], w[2], w[3]] + w[6:])
            else:
                line2 = " ".join(["addseq", w[1], w[2], w[3], "0" if check else "1"] + w[6:])
            r = check_op(line2, "err CLI " if out == "err" else out)
            return None if r is None else (r[0].replace("add_sequence", "sketch-cli"), f"`{line}`: " + r[1])
        if op == "codon":
            c = unhx(w[1])
            if 1 <= len(c) <= 3 and 0 not in c and is_ascii(c) and c == up(c):
                # a codon missing its last letter(s) is read as xyN / xNN: only a four-fold degenerate pair decides
                exp = ref_codon(c + b"N" * (3 - len(c)))
                if out != f"ok {exp}":
                    return "C02:translate_codon:value", f"translate_codon({c!r}) = {out}, the standard table says {chr(exp)}"
            return None
        if op == "aa":
            b = int(w[2])
            exp = (DAYHOFF if w[1] == "dayhoff" else HP).get(b, 88)
            if out != f"ok {exp}":
                return "C02:aa_to_" + w[1] + ":value", f"aa_to_{w[1]}({b}) = {out}, the class table says {exp}"
            return None
        if op == "murmur":
            data = unhx(w[2])
            exp = murmur64(data, int(w[1]))
            if out != f"ok {exp}":
                if 0 in data and out.startswith("err"):
                    return None         # refusing a NUL byte is not a wrong value
                if 0 in data and out == f"ok {murmur64(_cut_nul(data), int(w[1]))}":
                    return "C02:nul-byte-ends-c-string", (
                        f"hash_murmur({w[2]}, seed={w[1]}) hashes only the bytes before the first NUL "
                        "(the FFI reads a C string)")
                return "C02:hash_murmur:value", f"hash_murmur({w[2]}, seed={w[1]}) = {out}, MurmurHash3_x64_128 low word is {exp}"
            return None
        if op == "s2h":
            mol, k, seed, force, baz, isprot, mode, H = w[1], int(w[2]), int(w[3]), w[4] == "1", w[5] == "1", w[6] == "1", w[7], w[8]
            s = unhx(H)
            if (isprot and mol == "dna") or (baz and not force):
                return None if out.startswith("err") else ("C02:s2h:bad-arguments-accepted", f"`{line}` -> {out[:80]}")
            if k < 1:
                return None
            got = None if out.startswith("err") else [int(x) for x in out[3:].split(",") if x]
            if isprot:
                exp = expect_protein(mol, s, k, seed)
                if got != exp:
                    if 0 in exp and got == [h for h in exp if h != 0]:
                        return ZERO_SIG, (f"`{line}`: an amino-acid k-mer whose MurmurHash3 value is exactly 0 "
                                          "(seed = k, k NUL bytes) is silently dropped: 0 is the iterator's in-band skip marker")
                    return _s2h_sig(line, mode, s, got, lambda t: expect_protein(mol, t, k, seed), out)
                return None
            if mol == "dna":
                st, hs = expect_dna(s, k, seed, force)

                def flat(t):
                    st2, h2 = expect_dna(t, k, seed, force)
                    if st2 == "err":
                        return None
                    return [(0 if h is None else h) for h in h2 if (baz or h is not None)]
                exp = flat(s)
                if got != exp:
                    return _s2h_sig(line, mode, s, got, flat, out)
                return None
            # translated DNA (any ASCII letters: codons without a standard translation are X)
            if not is_ascii(s):
                return None
            exp = six_frames(mol, s, k, seed) if len(s) >= 3 * k else []
            if got is None:
                return "C02:s2h:translate-error", f"`{line}`: clean DNA raised {out}"
            g = list(got)
            if force and baz:
                # documented representation of 'invalid k-mers' as 0; clean DNA has none
                if sorted(g) != sorted(exp):
                    if sorted(x for x in g if x != 0) == sorted(exp):
                        return "C02:translate-force-sentinels-as-kmers", (
                            f"`{line}`: {len(g) - len(exp)} zero entries returned for a sequence without invalid k-mers "
                            "(the iterator's two bookkeeping sentinels leak through bad_kmers_as_zeroes)")
                    return "C02:s2h:translate-mismatch", f"`{line}`: hashes differ from six-frame translation"
                return None
            if sorted(g) != sorted(exp):
                return "C02:s2h:translate-mismatch", f"`{line}`: hashes differ from the six-frame translation with the standard code"
            return None
        if op == "kah":
            mol, k, seed, force, isprot, H = w[1], int(w[2]), int(w[3]), w[4] == "1", w[5] == "1", w[6]
            s = up(unhx(H))
            if isprot and mol == "dna":
                return None
            if k < 1:
                return None
            translate = mol != "dna" and not isprot
            if translate and not all(b in b"ACGTN" for b in s):
                return None              # screed.rc refuses other letters (AssertionError): not judged
            if isprot and 0 in expect_protein(mol, s, k, seed):
                exp = list(zip(windows(s, k), expect_protein(mol, s, k, seed)))
                ok_view = None
                if not out.startswith("err"):
                    ok_view = [(unhx(p.partition(":")[0]), p.partition(":")[2]) for p in out[3:].split(";") if p]
                if out.startswith("err") or ok_view == [(km, "-" if h == 0 else str(h)) for km, h in exp]:
                    return ZERO_SIG, (f"`{line}`: an amino-acid k-mer whose MurmurHash3 value is exactly 0 is treated "
                                      f"as the skip marker ({out[:40]})")
            if out.startswith("err"):
                kk = 3 * k if translate else k
                if mol == "dna" and not force and not is_acgt(s) and len(s) >= k:
                    return None          # the error the statement asks for
                if len(s) < kk - 1:
                    return "C02:kmers_and_hashes:short-sequence-assert", (
                        f"`{line}`: a sequence of length {len(s)} < k-1 = {kk - 1} raises {out} instead of yielding nothing")
                if translate and force:
                    return "C02:translate-force-sentinels-as-kmers", (
                        f"`{line}`: protein-type kmers_and_hashes(dna, force=True) raises {out} "
                        "(the iterator's two bookkeeping sentinels are counted as k-mers)")
                return "C02:kmers_and_hashes:error", f"`{line}` raised {out}"
            pairs = []
            for p in out[3:].split(";"):
                if p:
                    km, _, h = p.partition(":")
                    pairs.append((unhx(km), None if h == "-" else int(h)))
            if translate:
                exp_kmers = []
                for f in range(3):
                    for strand in (s, rc_any(s)):
                        exp_kmers += [strand[i:i + 3 * k] for i in range(f, len(strand) - 3 * k + 1, 3)]
                if sorted(km for km, _ in pairs) != sorted(exp_kmers):
                    return "C02:kmers_and_hashes:translate-kmers", f"`{line}`: k-mers are not the six-frame windows"
                for km, h in pairs:
                    aa = translate_ref(km, 0)
                    if h != murmur64(reenc(mol, aa), seed):
                        return "C02:kmers_and_hashes:translate-pair", f"`{line}`: k-mer {km!r} paired with {h}"
                return None
            if isprot:
                exp = list(zip(windows(s, k), expect_protein(mol, s, k, seed)))
            else:
                st, hs = expect_dna(s, k, seed, force)
                if st == "err":
                    return "C02:kmers_and_hashes:no-error", f"`{line}`: invalid k-mer without force did not raise"
                exp = list(zip(windows(s, k), hs))
            if pairs != exp:
                return "C02:kmers_and_hashes:pairs", f"`{line}`: (k-mer, hash) pairs differ from the canonical scheme"
            return None
        if op in ("addseq", "addprot"):
            isprot = op == "addprot"
            mol, k, seed = w[1], int(w[2]), int(w[3])
            force = (w[4] == "1") if not isprot else False
            recs = [unhx(h) for h in (w[4:] if isprot else w[5:])]
            if k < 1:
                return None
            status, _, rest = out.partition(" ")
            if status == "err":
                rest = rest.partition(" ")[2]
            got = _parse_counts(rest.strip())
            total = {}
            exp_status = "ok"
            for r in recs:
                st, ms = _expect_add(mol, k, seed, force, r, isprot)
                if st == "unspecified":
                    return None
                if st == "err":
                    exp_status = "err"
                    break
                for h, c in ms.items():
                    total[h] = total.get(h, 0) + c
            if exp_status == "err":
                if status == "err":
                    return None
                # did the code stop reading a record at a NUL byte?
                if any(0 in r for r in recs):
                    return "C02:nul-byte-ends-c-string", (
                        f"`{line}`: a record with a NUL byte and an invalid k-mer raises nothing "
                        "(the C string handed to Rust ends at the first NUL)")
                return "C02:add_sequence:no-error", f"`{line}`: invalid k-mer without force did not raise"
            if status == "err":
                return "C02:add_sequence:error", f"`{line}` raised {out[:60]}"
            if got != total:
                if any(0 in r for r in recs):
                    tot2 = {}
                    for r in recs:
                        st, ms = _expect_add(mol, k, seed, force, _cut_nul(r), isprot)
                        for h, c in (ms or {}).items():
                            tot2[h] = tot2.get(h, 0) + c
                    if got == tot2:
                        return "C02:nul-byte-ends-c-string", (
                            f"`{line}`: k-mers after a NUL byte are silently dropped "
                            "(the C string handed to Rust ends at the first NUL)")
                return "C02:add_sequence:content", f"`{line}`: sketch content differs from the canonical k-mer scheme"
            return None
    except (ValueError, IndexError, KeyError) as e:     # malformed op line: not the oracle's business
        return None
    return None


def _s2h_sig(line, mode, s, got, expect_fn, out):
    if mode == "str" and any(b >= 128 for b in s):
        nchars = len(s.decode("utf-8"))
        try:
            cut = expect_fn(s[:nchars])
        except Exception:       # noqa: BLE001
            cut = "?"
        if got == cut:
            return "C02:seq_to_hashes:char-count-as-byte-count", (
                f"`{line}`: a non-ASCII str is cut to len(str) BYTES before hashing: "
                f"valid k-mers at the end are lost or the cut lands inside a character ({out[:50]})")
    if got is None:
        return "C02:s2h:error", f"`{line}` raised {out}"
    if expect_fn(s) is None:
        return "C02:s2h:no-error", f"`{line}`: invalid k-mer without force did not raise"
    return "C02:s2h:hashes", f"`{line}`: hashes differ from the canonical k-mer scheme"


def oracle(case, impl):
    """-> [(op_index, signature, message)]; per-op expectations + relations between ops of the case"""
    bad = []
    for i, (line, out) in enumerate(zip(case, impl)):
        r = check_op(line, out)
        if r:
            bad.append((i, r[0], r[1]))
    # relations: rc / case variants and overlapping pieces must give the identical sketch
    adds = []
    for i, (line, out) in enumerate(zip(case, impl)):
        w = line.split()
        if w and w[0] == "addseq" and out.startswith("ok") and len(w) >= 6:
            adds.append((i, w, out))
    for i, w, out in adds:
        mol, k, seed, force = w[1], int(w[2]), w[3], w[4]
        k_nt = k if mol == "dna" else 3 * k
        recs = [unhx(h) for h in w[5:]]
        for j, w2, out2 in adds:
            if j == i or w2[1:5] != w[1:5] or len(w2) != 6:
                continue
            whole = unhx(w2[5])
            if any(0 in r for r in recs) or 0 in whole:
                continue
            related = None
            if len(recs) == 1 and is_acgt(up(whole)) and up(recs[0]) == rc(up(whole)):
                related = "reverse complement / letter case"
            elif len(recs) == 1 and up(recs[0]) == up(whole) and recs[0] != whole:
                related = "letter case"
            elif len(recs) == 2 and k_nt >= 1 and len(recs[0]) >= k_nt - 1 and len(recs[1]) >= k_nt - 1 and \
                    recs[0][len(recs[0]) - (k_nt - 1):] == recs[1][:k_nt - 1] and recs[0] + recs[1][k_nt - 1:] == whole:
                related = "two pieces overlapping by k-1"
            if related and out != out2:
                bad.append((max(i, j), "C02:relation:" + related.split()[0],
                            f"`{case[i]}` and `{case[j]}` ({related}) give different sketches"))
    # strand symmetry through seq_to_hashes(force=True): s and its reverse complement (any ASCII letters)
    s2 = []
    for i, (line, out) in enumerate(zip(case, impl)):
        w = line.split()
        if len(w) == 9 and w[0] == "s2h" and w[4:7] == ["1", "0", "0"] and out.startswith("ok"):
            s2.append((i, w, sorted(int(x) for x in out[3:].split(",") if x)))
    for i, w, hs in s2:
        a = unhx(w[8])
        if not is_ascii(a):
            continue
        for j, w2, hs2 in s2:
            if j <= i or w2[1:4] != w[1:4]:
                continue
            b = unhx(w2[8])
            if up(b) == rc_any(up(a)) and hs != hs2:
                bad.append((j, "C02:relation:strand-symmetry",
                            f"`{case[i]}` and its reverse complement `{case[j]}` give different multisets of hashes"))
    return bad


def nontrivial(case, impl):
    """a case counts when at least one op produced >= 3 hashes and the base sequence has >= 3 distinct windows"""
    for o in impl:
        if o.startswith("ok ") and o.count(",") + o.count(";") >= 2:
            return True
    return False
