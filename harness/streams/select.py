"""The `select` stream (C12): collections with mixed k / molecule / scaled / num / abundance,
chains of 1-3 selections, every picklist column type x include/exclude (hand-written CSVs and CSVs
produced in-process by the real manifest / search / prefetch / gather writers), names with spaces,
dots, repeated identifiers, empty names, md5-prefix collisions, across every container type.

The oracle at the bottom is written from the property statement (the documented meaning of each
criterion and of each picklist column type); it does not look at the Lean model.
"""
import hashlib
import json
import os
import sys

sys.path.insert(0, os.path.dirname(os.path.dirname(os.path.abspath(__file__))))
import common  # noqa: E402

MODULE = "select"
ADAPTER = "select_impl.py"


def strip_flags(line):
    """` !flag` suffixes are the adapter's view / route / history assertions: judged by the oracle, unknown to the model"""
    return line.split(" !")[0].rstrip() if " !" in line else line


def same(a, b):
    return strip_flags(a) == strip_flags(b) or (strip_flags(a) + " ").rstrip() == b.rstrip()

META = ("manifest", "gather", "prefetch", "search")
SIMPLE = ("md5", "md5prefix8", "md5short", "name", "ident", "identprefix")
MANIFEST_KINDS = ("multi", "multidir", "multipl", "zip", "smi")
ALL_KINDS = ("linear", "lazy", "multi", "multidir", "multipl", "zip", "zipnm", "smi", "sqlmf",
             "sbt", "sbtz", "lca", "sqlite")
INPLACE = ("sbt", "sbtz", "lca")


def md5_of(ksize, mol, hashes):
    raw = ksize if mol == "DNA" else 3 * ksize
    h = hashlib.md5()
    h.update(str(raw).encode())
    for x in sorted(set(hashes)):
        h.update(str(x).encode())
    return h.hexdigest()


def hx(s):
    return "-" if not s else s.encode("latin-1").hex()


def unhex(s):
    return "" if s == "-" else bytes.fromhex(s).decode("latin-1")


# --------------------------------------------------------------------------
# md5-prefix collisions: two small DNA sketches whose md5s share the first 8 hex digits.
# Birthday search over ~250k candidate sketches (ksize in {21,31}, two hashes from 10000..10499),
# done once and cached in corpus/C12/md5_collisions.json.

COLL_FILE = os.path.join(common.VERIF, "corpus", "C12", "md5_collisions.json")
_collisions = None


def find_collisions(limit=6):
    seen = {}
    out = []
    for k in (21, 31):
        for a in range(500):
            for b in range(a + 1, 500):
                hs = [10000 + a, 10000 + b]
                m = md5_of(k, "DNA", hs)
                p = m[:8]
                if p in seen and seen[p][2] != m:
                    out.append({"a": {"ksize": seen[p][0], "hashes": seen[p][1], "md5": seen[p][2]},
                                "b": {"ksize": k, "hashes": hs, "md5": m}})
                    if len(out) >= limit:
                        return out
                else:
                    seen[p] = (k, hs, m)
    return out


def collisions():
    global _collisions
    if _collisions is None:
        if os.path.exists(COLL_FILE):
            _collisions = json.load(open(COLL_FILE))
            for pr in _collisions:            # never trust a cache blindly
                for s in (pr["a"], pr["b"]):
                    assert md5_of(s["ksize"], "DNA", s["hashes"]) == s["md5"]
                assert pr["a"]["md5"][:8] == pr["b"]["md5"][:8] and pr["a"]["md5"] != pr["b"]["md5"]
        else:
            _collisions = find_collisions()
            os.makedirs(os.path.dirname(COLL_FILE), exist_ok=True)
            with open(COLL_FILE, "w") as f:
                json.dump(_collisions, f, indent=1)
    return _collisions


# --------------------------------------------------------------------------
# generator

NAMES = ["GCF_001.1 Escherichia coli", "GCF_001.2 E. coli K-12", "GCF_001", "GCF_001.1", "GCF_002.1 B. subtilis",
         "GCF_002 x", "a b.c", "a.b c", "a", "a.b", " lead", "x.y.z w", "GCF_001.1 Escherichia coli", "trail ", "dot. ted"]
SHARED = [1, 2, 3, 4, 5, 6]


class Sig:
    def __init__(self, i, ksize, mol, num, scaled, abund, name, hashes):
        self.i, self.ksize, self.mol, self.num, self.scaled = i, ksize, mol, num, scaled
        self.abund, self.name, self.hashes = abund, name, sorted(set(hashes))
        self.md5 = md5_of(ksize, mol, hashes)

    def line(self):
        return (f"sig {self.i} {self.ksize} {self.mol} {self.num} {self.scaled} {int(self.abund)} {self.md5} "
                f"{hx(self.name)} {','.join(map(str, self.hashes))}")

    def cls(self):
        return (self.ksize, self.mol, self.num, self.scaled)


def rand_class(rng):
    mol = rng.choice(["DNA", "DNA", "DNA", "protein", "dayhoff", "hp"])
    ksize = rng.choice([21, 31]) if mol == "DNA" else rng.choice([7, 10])
    if rng.random() < 0.7:
        return (ksize, mol, 0, rng.choice([1000, 1000, 2000]))
    return (ksize, mol, rng.choice([500, 1000]), 0)


def rand_name(rng, unnamed=0.15):
    r = rng.random()
    if r < unnamed:
        return ""
    return rng.choice(NAMES)


def rand_hashes(rng, i):
    return [100 + i] + [h for h in SHARED if rng.random() < 0.45]


def crit_args(rng, pool, pls, q=None):
    """one select call: list of key=value tokens"""
    if q is not None and rng.random() < 0.6:
        # the selection `load_dbs_and_sigs` makes from a query
        out = [f"m={q.mol}", f"k={q.ksize}", f"n={q.num}", f"s={q.scaled}", f"c={rng.choice([0, 0, 1])}"]
        return out
    out = []
    ks = sorted({s.ksize for s in pool}) + [21, 31, 7]
    if rng.random() < 0.03:
        # a moltype spelled in another case: refused by every container
        return [rng.choice(["m=dna", "m=Protein"])] + ([f"k={rng.choice(ks)}"] if rng.random() < 0.5 else [])
    if rng.random() < 0.08:
        # everything at once, consistent with one pool member (plus a picklist when there is one)
        t = rng.choice(pool)
        out = [f"k={t.ksize}", f"m={t.mol}", f"s={t.scaled}", f"n={t.num}", f"a={rng.choice(['None', '0', '1'])}",
               f"c={int(bool(t.scaled) and rng.random() < 0.5)}"]
        if pls and rng.random() < 0.7:
            out.append("p=" + str(rng.choice(pls)))
        rng.shuffle(out)
        return out
    if rng.random() < 0.5:
        out.append("k=" + ("None" if rng.random() < 0.15 else str(rng.choice(ks))))
    if rng.random() < 0.4:
        out.append("m=" + ("None" if rng.random() < 0.15 else rng.choice([s.mol for s in pool] + ["DNA", "protein"])))
    r = rng.random()
    if r < 0.25:
        out.append("s=" + str(rng.choice([0, 1000, 1000, 2000, 500])))
    elif r < 0.45:
        out.append("n=" + str(rng.choice([0, 500, 1000, 1000, 20])))
    elif r < 0.5:
        out += ["s=1000", "n=500"]
    if rng.random() < 0.25:
        out.append("a=" + rng.choice(["None", "0", "1", "1"]))
    if rng.random() < 0.2:
        out.append("c=" + rng.choice(["0", "1", "1"]))
    if pls and rng.random() < 0.45:
        out.append("p=" + str(rng.choice(pls)))
    if not out:
        out.append("k=" + str(rng.choice(ks)))
    rng.shuffle(out)
    return out


def pl_values(rng, ct, pool):
    """raw CSV values for a hand-written picklist"""
    vals = []
    picks = rng.sample(pool, k=min(len(pool), rng.randint(1, 3)))
    for s in picks:
        if ct in META:
            nm = rng.choice([s.name, s.name.split(" ")[0], s.name.split(" ")[0] + " other words"])
            md = rng.choice([s.md5, s.md5[:8], s.md5[:8] + "0" * 24, s.md5[:10]])
            vals.append(hx(nm) + ":" + hx(md))
        elif ct == "name":
            vals.append(hx(rng.choice([s.name, s.name, s.name.split(" ")[0]])))
        elif ct == "ident":
            vals.append(hx(rng.choice([s.name.split(" ")[0], s.name, s.name.split(".")[0]])))
        elif ct == "identprefix":
            vals.append(hx(rng.choice([s.name.split(" ")[0].split(".")[0], s.name.split(" ")[0], s.name])))
        elif ct == "md5":
            vals.append(hx(rng.choice([s.md5, s.md5, s.md5[:8]])))
        else:
            vals.append(hx(rng.choice([s.md5[:8], s.md5, s.md5[:7], s.md5[:9]])))
    if rng.random() < 0.3:
        vals.append("-:-" if ct in META else "-")
    if rng.random() < 0.3:
        vals.append((hx("zz") + ":" + hx("00")) if ct in META else hx("zz top"))
    if rng.random() < 0.2 and vals:
        vals.append(vals[0])
    rng.shuffle(vals)
    return vals


def gen_twins_case(rng):
    """same-hash / different-name twins in the containers that filter *loaded* signatures (LinearIndex, LazyLinearIndex,
    SBT without manifest, LCA database) and, for contrast, through a manifest; name-type and tuple picklists that
    separate the twins, include and exclude; every picklist object is used by several selects on several collections"""
    lines = []
    k = rng.choice([21, 31])
    sc = rng.choice([1000, 2000])
    names = [x for x in dict.fromkeys(NAMES) if x]
    rng.shuffle(names)
    pool = [Sig(i, k, "DNA", 0, sc, False, names[i], rand_hashes(rng, i)) for i in range(rng.randint(3, 5))]
    twins = []
    for t in rng.sample(pool, k=rng.randint(1, 2)):
        i = len(pool)
        if rng.random() < 0.5:
            nm = ident_of(t.name) + " twin strain %d" % i          # same identifier
        else:
            nm = "TWIN_%d.%d %s" % (i, rng.randint(1, 3), t.name)   # another identifier
        tw = Sig(i, t.ksize, t.mol, t.num, t.scaled, t.abund, nm, t.hashes)
        # the twin goes before or after its original: the first one seen must not decide for the other
        if rng.random() < 0.5:
            pool.append(tw)
        else:
            pool.insert(pool.index(t), tw)
        twins.append((t, tw))
    for j, s in enumerate(pool):
        s.i = j
    queries = [Sig(50, k, "DNA", 0, sc, False, "query 0", sorted({h for t, tw in twins for h in t.hashes[-1:]} | {1, 2}))]
    for s in pool + queries:
        lines.append(s.line())
    kinds = rng.sample(["linear", "lazy", "sbt", "lca", "multi", "zip", "sbtz"], k=3)
    if not any(x in kinds for x in ("linear", "lazy", "sbt", "lca")):
        kinds[0] = rng.choice(["linear", "lazy", "sbt", "lca"])
    colls = []
    for h, kind in enumerate(kinds):
        ms = list(pool)
        if kind == "sbtz":
            ms = list({s.md5: s for s in ms}.values())
        extra = [str(k), "DNA", str(sc)] if kind == "lca" else []
        lines.append(" ".join([f"coll {h} {kind}", ",".join(str(s.i) for s in ms)] + extra))
        colls.append((h, kind))
    h = len(colls)
    pls = []
    p = 0
    for t, tw in twins:
        for who in (t, tw):
            p += 1
            ct = rng.choice(["name", "name", "ident", "identprefix", "manifest", "gather", "prefetch", "search"])
            sty = rng.choice(["inc", "exc"])
            if ct in META:
                vals = [hx(who.name) + ":" + hx(who.md5)]
            elif ct == "name":
                vals = [hx(who.name)]
            elif ct == "ident":
                vals = [hx(ident_of(who.name))]
            else:
                vals = [hx(ident_of(who.name).split(".")[0])]
            other = rng.choice(pool)
            if other is not t and other is not tw and rng.random() < 0.5:
                vals.append((hx(other.name) + ":" + hx(other.md5)) if ct in META else hx(pick_key(ct, other.name, other.md5)))
            lines.append(" ".join([f"pl {p} {ct} {sty}"] + vals))
            pls.append(p)
    for c, kind in colls:
        use = pls if kind not in INPLACE else [rng.choice(pls)]
        for pp in use:
            lines.append(f"sel {h} {c} p={pp}")
            lines.append(f"sigs {h}")
            if rng.random() < 0.6:
                lines.append(f"search {h} 50")
            h += 1
        if kind in ("linear", "lazy") and rng.random() < 0.6:
            # the same picklist object once more, after it has seen the whole collection
            lines.append(f"sel {h} {c} p={pls[0]} k={k}")
            lines.append(f"sigs {h}")
            h += 1
    return lines


def gen_plarg_lines(rng, n):
    """`--picklist` argument strings: every coltype, default / explicit / misspelt style, wrong field counts, a ':' in the
    path, a column name given to a tuple coltype"""
    out = []
    for _ in range(n):
        ct = rng.choice(META + SIMPLE + ("md5prefix", "Name", ""))
        col = "" if (ct in META and rng.random() < 0.8) else rng.choice(["col", "name", "match_md5", ""])
        path = rng.choice(["pick.csv", "dir/pick.csv", "a b.csv", "c:x.csv", "p.csv.gz", ""])
        parts = [path, col, ct]
        r = rng.random()
        if r < 0.45:
            parts.append(rng.choice(["include", "exclude", "exclude"]))
        elif r < 0.6:
            parts.append(rng.choice(["Exclude", "EXCLUDE", "exc", "excluded", "", "include ", "in"]))
        elif r < 0.68:
            parts = parts[:2]
        elif r < 0.74:
            parts += ["exclude", "x"]
        out.append("plarg " + hx(":".join(parts)))
    return out


def parse_picklist_arg(arg):
    """the documented format 'pickfile:column:coltype[:pickstyle]' (class docstring / `--picklist` help); -> tuple or None"""
    f = arg.split(":")
    excl = False
    if len(f) == 4:
        if f[3] not in ("include", "exclude"):
            return None
        excl = f[3] == "exclude"
        f = f[:3]
    if len(f) != 3:
        return None
    path, col, ct = f
    if ct not in META + SIMPLE:
        return None
    if ct in META and col:
        return None
    return (ct, "exc" if excl else "inc", col, path)


def gen_case(rng, flavour):
    """flavours: mixed | inplace | sqlite | picklists | collide | twins"""
    if flavour == "twins":
        return gen_twins_case(rng) + gen_plarg_lines(rng, 2)
    lines = []
    pool = []
    nsig = rng.randint(4, 8)
    classes = [rand_class(rng) for _ in range(rng.randint(1, 3))]
    if flavour == "sqlite":
        sc = rng.choice([1000, 2000])
        classes = [(rng.choice([21, 31]), "DNA", 0, sc), (rng.choice([21, 31, 21]), rng.choice(["DNA", "protein"]), 0, sc)]
        classes = [(k if m == "DNA" else 7, m, n, s) for k, m, n, s in classes]
    if flavour == "inplace":
        classes = classes[:1] + ([classes[0]] if len(classes) > 1 else [])
    unnamed = 0.3 if flavour == "picklists" else 0.12
    for i in range(nsig):
        k, m, n, s = rng.choice(classes)
        ab = rng.random() < 0.25 and flavour != "sqlite"
        pool.append(Sig(i, k, m, n, s, ab, rand_name(rng, unnamed), rand_hashes(rng, i)))
    if flavour in ("mixed", "picklists") and rng.random() < 0.25 and pool:
        # a twin: same sketch content (hence same md5) under other parameters / another name
        t = rng.choice(pool)
        i = len(pool)
        how = rng.random()
        if how < 0.4:
            pool.append(Sig(i, t.ksize, t.mol, t.num, t.scaled, not t.abund, t.name, t.hashes))
        elif how < 0.7:
            pool.append(Sig(i, t.ksize, t.mol, 0 if t.num else 500, 1000 if t.num else 0, t.abund, t.name, t.hashes))
        else:
            # (a byte-identical copy would be stored once by a zip: storage, property C10 -- keep the name different)
            pool.append(Sig(i, t.ksize, t.mol, t.num, t.scaled, t.abund,
                            rng.choice([x for x in NAMES if x != t.name]), t.hashes))
    if flavour == "collide":
        pr = rng.choice(collisions())
        ident = rng.choice(["GCF_009.1", "GCF_001.1", "c"])
        for side, tail in (("a", " first"), ("b", rng.choice([" second", " first", ""]))):
            s = pr[side]
            i = len(pool)
            nm = ident + tail if rng.random() < 0.8 else rand_name(rng)
            pool.append(Sig(i, s["ksize"], "DNA", 0, rng.choice([1000, 1000, 2000]), False, nm, s["hashes"]))
    # queries: flat, parameters of some pool member
    queries = []
    for j in range(2):
        t = rng.choice(pool)
        hs = [h for h in SHARED if rng.random() < 0.5] + [100 + s.i for s in pool if rng.random() < 0.3]
        if flavour == "collide" and rng.random() < 0.7:
            hs += pool[-1].hashes[:1] + pool[-2].hashes[:1]
        if not hs:
            hs = [1]
        queries.append(Sig(50 + j, t.ksize, t.mol, t.num, t.scaled, False, f"query {j}", hs))
    # a gather query: private hashes only, so that every overlapping subject keeps a unique hash
    t = rng.choice([s for s in pool if s.scaled] or pool)

    def private(s):
        others = set()
        for o in pool:
            if o is not s:
                others.update(o.hashes)
        own = [x for x in s.hashes if x not in others]
        return own[0] if own else None
    priv = [private(s) for s in pool if rng.random() < 0.6]
    priv = [x for x in priv if x is not None] or [100]
    gq = Sig(52, t.ksize, t.mol, 0, t.scaled or 1000, False, "gather query", priv)
    queries.append(gq)
    for s in pool + queries:
        lines.append(s.line())

    # collections
    def members_for(kind):
        if kind == "sqlite":
            ok = [s for s in pool if s.scaled and not s.abund]
            if not ok:
                return None, []
            sc = rng.choice(ok).scaled
            return [s for s in ok if s.scaled == sc], []
        if kind == "lca":
            ok = [s for s in pool if s.scaled]
            if not ok:
                return None, []
            t = rng.choice(ok)
            ms, seen = [], set()
            for s in ok:
                ident = s.name if s.name else "noname" + s.md5[:8]
                if (s.ksize, s.mol) == (t.ksize, t.mol) and ident not in seen:
                    seen.add(ident)
                    ms.append(s)
            return ms, [str(t.ksize), t.mol, str(max(s.scaled for s in ms))]
        if kind in ("sbt", "sbtz"):
            t = rng.choice(pool)
            ms = [s for s in pool if s.cls() == t.cls()]
            if kind == "sbtz":
                ms = list({s.md5: s for s in ms}.values())
            return ms, []
        ms = [s for s in pool if rng.random() < 0.85] or pool[:1]
        if kind == "zipnm":
            # a zip read without its manifest only sees members named *.sig / *.sig.gz; same-md5 members are
            # stored as *.sig.gz_0 ... and are not listed (storage, property C10): keep md5s distinct here
            ms = list({s.md5: s for s in ms}.values())
        if kind in ("multidir", "smi", "sqlmf"):
            nf = rng.randint(1, 3)
            files = [rng.randrange(nf) for _ in ms]
            if kind == "sqlmf":
                # the SQLite manifest table is UNIQUE(internal_location, md5sum) with INSERT OR IGNORE: it cannot hold two
                # same-md5 sketches of one file (storage, property C10): keep (file, md5) distinct here
                seen, keep = set(), []
                for s, f in zip(ms, files):
                    if (f, s.md5) not in seen:
                        seen.add((f, s.md5))
                        keep.append((s, f))
                ms, files = [x[0] for x in keep], [x[1] for x in keep]
            return ms, [",".join(map(str, files))]
        if rng.random() < 0.04 and kind in ("linear", "lazy", "multi"):
            return [], []
        return ms, []

    if flavour == "inplace":
        kinds = [rng.choice(INPLACE), rng.choice(INPLACE)]
    elif flavour == "sqlite":
        kinds = ["sqlite", rng.choice(["sqlite", "sqlmf", "linear"])]
    elif flavour == "collide":
        kinds = [rng.choice(["smi", "sqlmf", "zip", "linear", "multi", "smi"]), rng.choice(ALL_KINDS)]
    else:
        kinds = [rng.choice(["linear", "lazy", "multi", "multidir", "multipl", "zip", "zipnm", "smi", "sqlmf"]),
                 rng.choice(ALL_KINDS)]
        if rng.random() < 0.5:
            kinds.append("linear")
    colls = []
    h = 0
    for kind in kinds:
        ms, extra = members_for(kind)
        if ms is None or (not ms and kind not in ("linear", "lazy", "multi")):
            continue
        lines.append(" ".join([f"coll {h} {kind}", ",".join(str(s.i) for s in ms) or "-"] + extra))
        colls.append((h, kind, ms))
        h += 1
    if not colls:
        lines.append(f"coll {h} linear " + ",".join(str(s.i) for s in pool))
        colls.append((h, "linear", pool))
        h += 1
    # picklists
    pls = []
    npl = rng.randint(1, 3) if flavour in ("picklists", "collide") else rng.randint(0, 2)
    for p in range(1, npl + 1):
        sty = rng.choice(["inc", "inc", "exc"])
        if rng.random() < (0.45 if flavour in ("picklists", "collide") else 0.2):
            # produced by the real writers from a plain collection
            src = [c for c in colls if c[1] in ("linear", "multi", "zip") and len({s.md5 for s in c[2]}) == len(c[2]) and c[2]]
            if src:
                c = rng.choice(src)
                ct = rng.choice(META)
                # search / prefetch / gather need a homogeneous collection: select first
                q = gq if ct == "gather" else rng.choice(queries)
                if ct == "manifest":
                    lines.append(f"plfrom {p} manifest {sty} {c[0]} {q.i}")
                else:
                    lines.append(f"sel {h} {c[0]} m={q.mol} k={q.ksize} n={q.num} s={q.scaled} c={int(ct != 'search')}")
                    lines.append(f"sigs {h}")
                    lines.append(f"plfrom {p} {ct} {sty} {h} {q.i}")
                    h += 1
                pls.append(p)
                continue
        ct = rng.choice(META + SIMPLE + SIMPLE)
        lines.append(" ".join([f"pl {p} {ct} {sty}"] + pl_values(rng, ct, pool)))
        pls.append(p)
    if flavour == "picklists":
        lines += gen_plarg_lines(rng, 3)
    # chains
    for c, kind, ms in colls:
        nchains = 1 if kind in INPLACE else rng.randint(1, 3)
        if rng.random() < 0.3:
            lines.append(f"sigs {c}")
        for _ in range(nchains):
            cur = c
            for step in range(rng.randint(1, 3)):
                q = rng.choice(queries)
                lines.append(" ".join([f"sel {h} {cur}"] + crit_args(rng, pool, pls, q)))
                cur = h
                h += 1
                lines.append(f"sigs {cur}")
                if rng.random() < 0.5:
                    if kind in INPLACE or kind == "sqlite":
                        # these search structures assume a query of the collection's own sketch type
                        ok = [x for x in queries if ms and (x.ksize, x.mol, bool(x.num)) == (ms[0].ksize, ms[0].mol, bool(ms[0].num))
                              and (kind != "sqlite" or (x.scaled and all((m.ksize, m.mol) == (x.ksize, x.mol) or True for m in ms)))]
                        if not ok:
                            continue
                        q = rng.choice(ok)
                    lines.append(f"search {cur} {q.i}")
    return lines


# --------------------------------------------------------------------------
# the property oracle: written from the statement

def ident_of(name):
    "identifier = first space-delimited word of the name"
    return name.split(" ")[0]


def pick_key(ct, name, md5):
    """documented meaning of each column type (class docstring of SignaturePicklist)"""
    if ct == "name":
        return name
    if ct == "md5":
        return md5
    if ct in ("md5prefix8", "md5short"):
        return md5[:8]
    if ct == "ident":
        return ident_of(name)
    if ct == "identprefix":
        return ident_of(name).split(".")[0]
    return (ident_of(name), md5[:8])


def pickset_from_raw(ct, raws):
    out = set()
    for v in raws:
        if ct in META:
            a, b = v.split(":")
            out.add(pick_key(ct, unhex(a), unhex(b)))
        else:
            x = unhex(v)
            if not x:
                continue            # empty CSV cells are not values
            k = pick_key(ct, x, x)
            if k:
                out.add(k)
    return out


def parse_pickset(ct, obs):
    # "ok n items"
    w = obs.split(" ")
    items = w[2].split(",") if len(w) > 2 and w[2] else []
    out = set()
    for it in items:
        if ct in META:
            a, b = it.split(":")
            out.add((unhex(a), unhex(b)))
        else:
            out.add(unhex(it))
    return out


def sat(s, crit, pls):
    """does signature s satisfy one select call?  (reference: select_signature)"""
    k = crit.get("k")
    if k not in (None, "None") and int(k) and s.ksize != int(k):
        return False
    m = crit.get("m")
    if m not in (None, "None") and s.mol != m:
        return False
    sc = int(crit.get("s", 0))
    cont = crit.get("c") == "1"
    if sc or cont:
        if not s.scaled or s.num:
            return False
    n = int(crit.get("n", 0))
    if n:
        if s.scaled or s.num != n:
            return False
    if crit.get("a") == "1" and not s.abund:
        return False
    if "p" in crit:
        ct, exclude, pickset = pls[int(crit["p"])]
        hit = pick_key(ct, s.name, s.md5) in pickset
        if hit == exclude:
            return False
    return True


def overlaps(q, s):
    return bool(set(q.hashes) & set(s.hashes))


def comparable(q, s):
    if (s.ksize, s.mol) != (q.ksize, q.mol):
        return False
    return bool(s.scaled and not s.num) if q.scaled else bool(s.num and not s.scaled)


def parse_sigs(obs):
    w = obs.split(" ")
    items = w[2].split(",") if len(w) > 2 and w[2] else []
    return sorted(items)


def key(s):
    return f"{s.md5}:{hx(s.name)}"


def oracle(case, impl):
    """-> list of (op_index, signature, message)"""
    bad = []
    sigs = {}
    pls = {}          # p -> (coltype, exclude, pickset)
    handles = {}      # h -> object id
    listed = {}       # h -> keys listed by the last `sigs` op on h
    objs = {}         # object id -> dict(kind, members, chain=[crit...], dead=bool)
    nobj = 0
    for idx, (line, obs) in enumerate(zip(case, impl)):
        w = line.split()
        if not w or obs == "bad-op":
            continue
        op = w[0]
        flags = [f for f in obs.split(" !")[1:]] if " !" in obs else []
        obs = strip_flags(obs)
        if flags and op in ("sel", "sigs", "search") and len(w) > 1:
            hh = int(w[2]) if op == "sel" else int(w[1])
            oo = objs.get(handles.get(hh))
            kind = oo["kind"] if oo else "?"
            for f in flags:
                name = f.split("=")[0].split(":")[0].rstrip("0123456789")
                if name in ("len", "bool") and kind in ("sbt", "sbtz", "lca") and oo and any("p" in cr for cr in oo["chain"]):
                    bad.append((idx, "C12:len-ignores-picklists",
                                f"len()/bool() of a {kind} collection restricted by a picklist still counts the unrestricted "
                                f"collection ({f}; signatures() lists {obs.split(' ')[1] if obs.startswith('ok') else '?'})"))
                elif name in ("len", "bool", "manifest") and kind in ("smi", "sqlmf"):
                    pass        # the manifest of a standalone index vs what it re-reads: judged with the listing (C12.3)
                elif name == "best":
                    bad.append((idx, "C12:best-only-search-influenced-by-deselected",
                                f"best_containment() on a {kind} collection after select {oo['chain'] if oo else '?'} finds nothing / "
                                f"something outside although search() finds selected matches: a deselected signature with a better score "
                                f"raises the best-only threshold before the picklist is applied"))
                else:
                    bad.append((idx, f"C12:view:{name}:{kind}",
                                f"two ways of reading a {kind} collection disagree at `{line[:80]}`: {f}"))
        try:
            if op == "sig":
                i, k, mol, num, sc, ab, md5, name, hs = w[1:]
                s = Sig(int(i), int(k), mol, int(num), int(sc), ab == "1", unhex(name),
                        [int(x) for x in hs.split(",")] if hs != "-" else [])
                if obs != "ok" or s.md5 != md5:
                    bad.append((idx, "skip:md5", "sketch md5 differs from md5(ksize, mins): " + obs))
                    return bad
                sigs[s.i] = s
            elif op == "coll":
                if not obs.startswith("ok"):
                    continue
                ms = [sigs[int(x)] for x in w[3].split(",")] if w[3] != "-" else []
                handles[int(w[1])] = nobj
                objs[nobj] = {"kind": w[2], "members": ms, "chain": [], "dead": False}
                if w[2] == "lca" and len(w) >= 7:
                    objs[nobj]["params"] = (int(w[4]), w[5], int(w[6]))
                nobj += 1
            elif op == "plarg":
                exp = parse_picklist_arg(unhex(w[1]))
                if exp is None:
                    if obs != "err ValueError":
                        bad.append((idx, "C12:picklist-argument-parsing",
                                    f"--picklist {unhex(w[1])!r} is not of the form file:col:coltype[:include|exclude] but gave {obs}"))
                else:
                    want = f"ok {exp[0]} {exp[1]} {hx(exp[2])} {hx(exp[3])}"
                    if obs != want:
                        bad.append((idx, "C12:picklist-argument-parsing",
                                    f"--picklist {unhex(w[1])!r} means {exp} but gave {obs}"))
            elif op == "pl":
                p, ct, sty = int(w[1]), w[2], w[3]
                if not obs.startswith("ok"):
                    bad.append((idx, f"C12:picklist-load:{ct}", f"loading a {ct} picklist failed: {obs}"))
                    continue
                exp = pickset_from_raw(ct, w[4:])
                got = parse_pickset(ct, obs)
                if exp != got:
                    bad.append((idx, f"C12:picklist-load:{ct}",
                                f"pickset of a {ct} picklist: loaded {sorted(got, key=str)[:6]}, the column type means {sorted(exp, key=str)[:6]}"))
                pls[p] = (ct, sty == "exc", got)
            elif op == "plfrom":
                p, ct, sty, c, q = int(w[1]), w[2], w[3], int(w[4]), int(w[5])
                if not obs.startswith("ok"):
                    continue
                got = parse_pickset(ct, obs)
                o = objs.get(handles.get(c))
                if o is not None and not o["dead"]:
                    sel = [s for s in o["members"] if all(sat(s, cr, pls) for cr in o["chain"])]
                    if c in listed:
                        # the search ran over what signatures() listed; whether that listing is the right
                        # selection was judged at the `sigs` op
                        sel = [s for s in o["members"] if key(s) in listed[c]]
                    qs = sigs[q]
                    if ct == "manifest":
                        rows = sel
                    else:
                        rows = [s for s in sel if overlaps(qs, s)] if all(comparable(qs, s) for s in sel) else None
                    if rows is not None and o["kind"] != "sqlite":
                        exp = {pick_key(ct, s.name, s.md5) for s in rows}
                        if exp != got:
                            bad.append((idx, f"C12:picklist-from-{ct}-output",
                                        f"picklist loaded from real {ct} output holds {sorted(got)[:6]}, the {ct} result is {sorted(exp)[:6]}"))
                pls[p] = (ct, sty == "exc", got)
            elif op == "sel":
                r, c = int(w[1]), int(w[2])
                if c not in handles:
                    continue
                o = objs[handles[c]]
                crit = dict(kv.split("=") for kv in w[3:])
                if "p" in crit and int(crit["p"]) not in pls:
                    continue
                if crit.get("m") in ("dna", "Protein"):
                    if obs != "err ValueError":
                        bad.append((idx, f"C12:unknown-moltype-accepted:{o['kind']}",
                                    f"select(moltype={crit['m']!r}) on a {o['kind']} collection: {obs} (an unknown moltype is a ValueError)"))
                    continue
                if o["dead"]:
                    if not obs.startswith("err") and o["kind"] not in INPLACE:
                        handles[r] = nobj
                        objs[nobj] = dict(o)
                        nobj += 1
                    elif not obs.startswith("err"):
                        handles[r] = handles[c]
                    continue
                if obs.startswith("err"):
                    cls = obs.split()[1]
                    if o["kind"] in INPLACE:
                        o["dead"] = True        # modified in place by a refused call: nothing more is claimed
                    if cls != "ValueError":
                        full = {}
                        for cr in o["chain"] + [crit]:
                            full.update(cr)
                        bad.append(classify_crash(idx, cls, o, full, pls, "select"))
                    elif not legit_refusal(o, crit, pls):
                        bad.append((idx, f"C12:unjustified-refusal:{o['kind']}",
                                    f"select({crit}) on a {o['kind']} collection holding selection {o['chain']} refuses with ValueError "
                                    f"although the collection can honour the request"))
                    continue
                if o["kind"] in INPLACE:
                    o["chain"].append(crit)
                    handles[r] = handles[c]
                else:
                    handles[r] = nobj
                    objs[nobj] = {"kind": o["kind"], "members": o["members"], "chain": o["chain"] + [crit],
                                  "dead": o["dead"]}
                    nobj += 1
            elif op in ("sigs", "search"):
                c = int(w[1])
                if c not in handles:
                    continue
                o = objs[handles[c]]
                if o["dead"]:
                    continue
                if obs.startswith("err"):
                    cls = obs.split()[1]
                    if op == "sigs" and cls != "ValueError":
                        crit = {}
                        for cr in o["chain"]:
                            crit.update(cr)
                        bad.append(classify_crash(idx, cls, o, crit, pls, "signatures"))
                    elif op == "sigs" and not legit_refusal(dict(o, chain=o["chain"][:-1]), o["chain"][-1] if o["chain"] else {}, pls,
                                                           at_iteration=True):
                        bad.append((idx, f"C12:unjustified-refusal:{o['kind']}",
                                    f"signatures() of a {o['kind']} collection after select {o['chain']} raises ValueError although the "
                                    f"request is coherent"))
                    if op == "sigs":
                        o["dead"] = True
                    continue
                sel = [s for s in o["members"] if all(sat(s, cr, pls) for cr in o["chain"])]
                # containment without scaled: the reference refuses, manifests filter scaled sketches: both are accepted,
                # and `sat` above already encodes "scaled sketches only"
                got = parse_sigs(obs)
                if op == "sigs":
                    listed[c] = set(got)
                    exp = sorted(key(s) for s in sel)
                    if got != exp:
                        bad += classify_mismatch(idx, o, sel, got, exp, pls, sigs)
                        o["dead"] = True
                else:
                    qs = sigs[int(w[2])]
                    allowed = sorted(key(s) for s in sel)
                    extra = list(got)
                    for x in allowed:
                        if x in extra:
                            extra.remove(x)
                    if extra:
                        sig = "C12:sqlite-search-ignores-selection" if o["kind"] == "sqlite" else f"C12:search-outside-selection:{o['kind']}"
                        bad.append((idx, sig,
                                    f"search on a {o['kind']} collection after select {o['chain']} returned {len(extra)} signature(s) "
                                    f"outside the selection: {extra[:3]}"))
                    elif all(comparable(qs, s) for s in sel):
                        exp = sorted(key(s) for s in sel if overlaps(qs, s))
                        if got != exp:
                            bad.append((idx, f"C12:search-misses-selected:{o['kind']}",
                                        f"search on a {o['kind']} collection after select {o['chain']}: got {got[:4]}, "
                                        f"the selected signatures sharing a hash with the query are {exp[:4]}"))
        except (KeyError, ValueError, IndexError):
            continue
    return bad


def _truthy_int(cr, k):
    return int(cr.get(k, 0) or 0) != 0


def _merge_conflict(kind, chain, crit):
    """the documented refusal of the containers that merge selection dicts: the same key with another value"""
    d = {}
    for cr in chain:
        for k, v in cr.items():
            if kind == "sqlite" and k in ("n", "a"):
                continue
            d[k] = v
    if not d and kind != "lazy":
        return False
    for k, v in crit.items():
        if kind == "sqlite" and k in ("n", "a"):
            continue
        if k in d:
            if kind == "lazy":
                if d[k] != v:
                    return True
            elif d[k] != "None" and d[k] != v:
                return True
    return False


def legit_refusal(o, crit, pls, at_iteration=False):
    """may this container refuse this request with ValueError?  (Index.select docstrings: incompatible requirements;
    `containment` without `scaled` for the reference predicate; indexed databases refuse what their index cannot serve)"""
    kind = o["kind"]
    chain = o["chain"]
    merged = {}
    for cr in chain + [crit]:
        merged.update(cr)
    cont_without_scaled = merged.get("c") == "1" and not _truthy_int(merged, "s")
    if kind == "linear":
        return crit.get("c") == "1" and not _truthy_int(crit, "s")
    if kind in ("lazy", "zipnm"):
        if at_iteration:
            return cont_without_scaled
        return _merge_conflict(kind, chain, crit)
    if kind in ("multi", "multidir", "multipl", "zip", "smi"):
        return False
    if kind == "sqlmf":
        return _merge_conflict(kind, chain, crit)
    if kind == "sqlite":
        return _truthy_int(crit, "n") or crit.get("a") == "1" or _merge_conflict(kind, chain, crit)
    if kind in ("sbt", "sbtz", "lca"):
        held = sum(1 for cr in chain if "p" in cr)
        if "p" in crit and held >= 1:
            return True
        if crit.get("a") == "1":
            return True
        if kind == "lca":
            k0, m0, sc0 = o["params"]
            if _truthy_int(crit, "n"):
                return True
            if int(crit.get("s", 0)) > sc0 and crit.get("c") != "1":
                return True
            if crit.get("k") not in (None, "None") and int(crit["k"]) != k0:
                return True
            if crit.get("m") not in (None, "None") and crit["m"] != m0:
                return True
            return False
        sel = [s for s in o["members"] if all(sat(s, {"p": cr["p"]}, pls) for cr in chain if "p" in cr)]
        if not sel:
            return False
        t = sel[0]
        if crit.get("k") not in (None, "None") and int(crit["k"]) != t.ksize:
            return True
        if crit.get("m") not in (None, "None") and crit["m"] != t.mol:
            return True
        if crit.get("c") == "1" and not t.scaled:
            return True
        n = int(crit.get("n", 0))
        if n and (not t.num or n != t.num):
            return True
        sc = int(crit.get("s", 0))
        if sc and (not t.scaled or (sc > t.scaled and crit.get("c") != "1")):
            return True
        return False
    return True


def classify_crash(idx, cls, o, crit, pls, where):
    kind = o["kind"]
    if cls == "AssertionError" and "p" in crit:
        ct = pls[int(crit["p"])][0]
        if ct in ("name", "ident", "identprefix") and any(not s.name for s in o["members"]):
            return (idx, "C12:unnamed-sig-name-picklist-asserts",
                    f"{where} on a {kind} collection holding an unnamed signature with a `{ct}` picklist raises AssertionError "
                    f"(manifest-row path: `assert q` in _get_value_for_manifest_row); the same picklist on a LinearIndex just does not match")
    if cls == "StopIteration" and kind in ("sbt", "sbtz"):
        return (idx, "C12:sbt-select-on-empty-selection-raises-stopiteration",
                "SBT.select on a tree whose picklist leaves no signature raises StopIteration (next(iter(self.signatures()))) "
                "instead of returning the empty selection or refusing with ValueError")
    return (idx, f"C12:crash:{cls}:{kind}", f"{where} on a {kind} collection with {crit} raised {cls} (refusals are ValueError)")


def classify_mismatch(idx, o, sel, got, exp, pls, sigs):
    """name the known deviation(s) that explain an observed selection, if any; otherwise a generic signature.
    -> list of (idx, signature, message)"""
    import itertools
    kind = o["kind"]
    extra = list(got)
    for x in exp:
        if x in extra:
            extra.remove(x)
    missing = list(exp)
    for x in got:
        if x in missing:
            missing.remove(x)
    members = o["members"]
    chain = o["chain"]
    msg = (f"signatures() of a {kind} collection after select {chain}: {len(extra)} signature(s) that do not satisfy the "
           f"criteria {extra[:3]}, {len(missing)} satisfying signature(s) missing {missing[:3]}")
    relax = []
    if kind in MANIFEST_KINDS + ("sqlmf",):
        relax.append(("num", "C12:manifest-num-select-ignores-value",
                      " -- the manifest row filter keeps every num sketch, whatever its num; select_signature requires num == ss.minhash.num"))
    if kind in ("sqlite", "sqlmf"):
        relax.append(("abund", "C12:sqlite-abund-select-ignored",
                      " -- select(abund=True) on a SQLite manifest / index is silently ignored"))
    if kind in ("smi", "sqlmf"):
        relax.append(("namemd5", "C12:standalone-manifest-reloads-by-name-md5",
                      " -- StandaloneManifestIndex re-reads each listed file through manifest.to_picklist(), i.e. by (name, md5): "
                      "a deselected signature with the same name and the same md5 as a selected one (same sequence sketched with / "
                      "without abundance, num vs scaled with the same retained hashes, ...) comes back"))
        # regression of the variant before cff7217 (not a known finding any more)
        relax.append(("identmd5", "C12:standalone-manifest-reloads-by-ident-md5short",
                      " -- StandaloneManifestIndex re-reads each file by (identifier, md5[:8]) (the to_picklist() of before cff7217): "
                      "a deselected signature sharing both with a selected one comes back"))

    def sat_relaxed(s, cr, on):
        cr2 = dict(cr)
        numreq = int(cr2.get("n", 0))
        if "num" in on and numreq:
            cr2.pop("n")
            if not (s.num and not s.scaled):
                return False
        if "abund" in on:
            cr2.pop("a", None)
        return sat(s, cr2, pls)

    relax = _order_relax(relax)
    for r in range(1, len(relax) + 1):
        for combo in itertools.combinations(relax, r):
            on = {c[0] for c in combo}
            alt = [s for s in members if all(sat_relaxed(s, cr, on) for cr in chain)]
            if "namemd5" in on:
                keys = {(s.name, s.md5) for s in alt}
                alt = [s for s in members if (s.name, s.md5) in keys]
            if "identmd5" in on:
                keys = {(ident_of(s.name), s.md5[:8]) for s in alt}
                alt = [s for s in members if (ident_of(s.name), s.md5[:8]) in keys]
            if sorted(key(s) for s in alt) == got:
                return [(idx, c[1], msg + c[2]) for c in combo]
    return [(idx, f"C12:selection-mismatch:{kind}", msg)]


def _order_relax(relax):
    """explanations by a KNOWN finding are tried before those by a repaired one: when a same-name same-md5 twin that
    differs only in abundance comes back from a standalone SQLite manifest, both 'abund ignored' (repaired, 73316d8)
    and 'reloaded by (name, md5)' (known C12.3) reproduce the observation; the latter is what the code does"""
    first = [c for c in relax if c[0] == "namemd5"]
    return first + [c for c in relax if c[0] != "namemd5"]


def nontrivial(case, impl):
    """>= 2 successful selections whose result was listed, at least one non-empty and one that dropped something"""
    n_ok = 0
    sizes = set()
    for l, o in zip(case, impl):
        if l.startswith("sigs ") and o.startswith("ok"):
            n_ok += 1
            sizes.add(o.split(" ")[1])
    return n_ok >= 2 and len(sizes) >= 2
