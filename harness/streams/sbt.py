"""The `sbt` correspondence stream (C13): histories of insertions, sparse saves + loads
(index versions 3-6, cache sizes), repairs and searches on one Sequence Bloom Tree, and the
property oracle for C13 written from the property statement (it never looks at the model).

ops (one per line)
  new d bfsize ntables [scaled]   create SBT(GraphFactory(1, bfsize, ntables), d=d); sketches are made with this scaled (default 1)
  ins id h1 h2 ...                insert a sketch (tree's scaled) fed these hashes (those above its max_hash are dropped), named id
  dump                            per position: kind, and for internal nodes min_n_below, n_occupied,
                                  covered/total leaves below
  probe h1 h2 ...                 per internal node: Nodegraph.matches of these hashes
  saveload sp seed ver cache      save(sparseness=sp/1000) to a temp dir, load (index version ver,
                                  cache_size=cache or None); the loaded tree replaces the tree
  search c thr h1 h2 ...          tree.search(query, threshold=thr/1000, do_containment=c), query at the tree's scaled
  searchs c thr sq h1 h2 ...      the same with a query of scaled sq (finer: find downsamples the query; coarser: find
                                  downsamples every leaf and scores internal nodes with size 1); c = 0 Jaccard,
                                  1 containment, 2 max containment
  saveas sp seed fmt              save(sparseness=sp/1000) to ANOTHER location (fmt 0 zip, 1 FS, 2 FS in a nested directory) and
                                  keep using the tree in memory
  checksaved cache                load the copy written by the last saveas (cache_size=cache or None) and walk it like `dump`;
                                  the tree in use is not replaced
  stash                           put the tree aside (a `new` must follow); combine: tree.combine(stashed tree) -- a fresh root over the two
  combine                         trees, the larger one (ties: the tree in use) in the first subtree
  damage kind k                   damage a file of the index the tree was loaded from (version 3-6) and load it again: del / trunc /
                                  empty (k-th internal node file), delleaf (k-th leaf file), swapleaf (internal <-> leaf file), swap (two
                                  internal node files).  Not modelled: the model answers `skip` from here on and the oracle demands that
                                  every later search RAISES or returns the linear scan -- never a wrong answer without an error
  (dump ends with sv=<n>: the number of signatures tree.signatures() yields -- a second view of the leaves)
  select ksize scaled cont        tree.select(ksize=, scaled=, containment=)  -> ok | err ValueError
  (saveload: ver 1 and 2 are the legacy containers -- list / dict of relative file names, no factory or storage
   record, no metadata on internal nodes, root filter file uncompressed; generated with sparseness 0 and table
   requests that survive the loader's rounding of the first table size to the hundred)
  rebuild pos | fillint | fillmin _rebuild_node(pos) | _fill_internal() | _fill_min_n_below()
  rebuildm k                      _rebuild_node(p) for the (k mod n)-th of the n positions in _missing_nodes
                                  (ascending); nothing when there are none.  (`rebuild pos` is generated
                                  with pos = 0 only: calling the private helper on a leaf position is a misuse)
"""
import os
import sys

sys.path.insert(0, os.path.dirname(os.path.dirname(os.path.abspath(__file__))))

U64 = 2 ** 64 - 1
MODULE = "sbt"
ADAPTER = "sbt_impl.py"

BF_SMALL = [3, 4, 5, 6, 8, 12, 20, 33, 64, 65, 100]
BF_MID = [1000, 1000, 4000, 10000]
BF_BIG = [100000]
SPARSE = [0, 300, 500, 900, 1000]


def max_hash(scaled):
    """sourmash.minhash._get_max_hash_for_scaled"""
    if scaled == 0:
        return 0
    if scaled == 1:
        return U64
    return min(int(round(U64 / scaled, 0)), U64)


SCALED_T = [1, 1, 1, 1, 2, 4, 100, 1000]
LEGACY_BF = [100, 1000, 4000, 10000]


def same(a, b):
    """the model predicts nothing after a file of the index was damaged"""
    return a == b or b == "skip"


def draw(seed, pos):
    return 1 + (pos * 7919 + seed * 104729 + 17) % 999


def _pool(rng, n, st=1):
    pool = set()
    mh = max_hash(st)
    cands = [0, 1, 2, U64, U64 - 1, 2 ** 63, 2 ** 63 - 1, 2 ** 32, 997, 991, 983 * 977,
             mh, mh - 1, mh + 1, max_hash(2 * st), max_hash(2 * st) + 1, max_hash(8 * st), mh // 3]
    while len(pool) < n:
        r = rng.random()
        if r < 0.25:
            v = rng.choice(cands)
        elif r < 0.5:
            v = rng.randint(0, 200)
        elif r < 0.9:
            v = rng.randint(0, mh)
        else:
            v = rng.randint(0, U64)
        if 0 <= v <= U64:
            pool.add(v)
    return sorted(pool)


def _sketch(rng, pool, big=False):
    r = rng.random()
    if r < 0.10:
        k = 0
    elif r < 0.25:
        k = 1
    elif r < 0.93 or not big:
        k = rng.randint(2, 8)
    else:
        k = rng.randint(9, 30)
    k = min(k, len(pool))
    return sorted(rng.sample(pool, k))


def _query(rng, pool, sketches, st=1):
    if sketches and rng.random() < 0.7:
        base = list(rng.choice(sketches))
        if base and rng.random() < 0.5:
            base = base[: max(1, len(base) // 2)]
        if rng.random() < 0.4:
            base += rng.sample(pool, min(2, len(pool)))
        hs = sorted(set(base))
    else:
        hs = sorted(rng.sample(pool, min(len(pool), rng.randint(0, 6))))
    thr = rng.choice([0, 1, 100, 100, 250, 333, 500, 500, 667, 1000])
    if rng.random() < 0.45:
        return f"search {rng.randint(0, 1)} {thr} " + " ".join(str(h) for h in hs)
    c = rng.choice([0, 1, 2, 2])
    r = rng.random()
    if r < 0.3:
        sq = st
    elif r < 0.7:
        sq = st * rng.choice([2, 2, 3, 8, 1000])          # coarser than the tree
    else:
        sq = max(1, st // rng.choice([2, 4, 1000]))       # finer (or equal)
    return f"searchs {c} {thr} {sq} " + " ".join(str(h) for h in hs)


def gen_case(rng, flavour, thorough=False):
    """flavour: 'insert' (insertions only), 'small' (tiny filters, any d), 'sparse' (save with
    sparseness, load, repair), 'reinsert' (insertions after a load), 'big' (large filter)"""
    if flavour.endswith("T"):
        flavour, thorough = flavour[:-1], True
    lines = []
    d = rng.choice([2, 2, 2, 3, 3, 4, 5, 7, 10, rng.randint(2, 10)])
    legacy_ver = 0
    if flavour == "legacy":
        legacy_ver = rng.choice([1, 2, 2])
        if legacy_ver == 1:
            d = 2
        bf = rng.choice(LEGACY_BF)
    elif flavour == "small":
        bf = rng.choice(BF_SMALL)
    elif flavour == "big":
        bf = rng.choice(BF_BIG)
    else:
        bf = rng.choice(BF_SMALL + BF_MID * 4)
    nt = rng.choice([4, 4, 4, 4, 1, 2, 3])
    st = rng.choice(SCALED_T)
    if rng.random() < 0.15:
        lines.append(f"new {d} {bf} {nt}" + ("" if st == 1 else f" {st}"))
        lines.append(f"select {rng.choice([21, 21, 31])} {rng.choice([0, st, 2 * st])} {rng.randint(0, 1)}")
    lines.append(f"new {d} {bf} {nt}" + ("" if st == 1 else f" {st}"))
    hi = 60
    if thorough and flavour in ("insert", "sparse") and rng.random() < 0.3:
        hi = 300
    if flavour == "big":
        hi = 12
    if flavour == "small":
        hi = 25
    if flavour == "legacy":
        hi = 30
    n_ins = rng.randint(1, hi) if rng.random() < 0.8 else rng.randint(1, 6)
    pool = _pool(rng, rng.randint(3, 40), st)
    sketches = []
    next_id = 0

    def ins():
        nonlocal next_id
        s = _sketch(rng, pool, big=(flavour != "big"))
        sketches.append(s)
        lines.append(f"ins {next_id} " + " ".join(str(h) for h in s))
        next_id += 1

    dump_every = rng.choice([1, 1, 3, 7, 1000])
    for i in range(n_ins):
        ins()
        if (i + 1) % dump_every == 0 and n_ins <= 80:
            lines.append("dump")
    lines.append("dump")
    if rng.random() < 0.6:
        lines.append("probe " + " ".join(str(h) for h in rng.sample(pool, min(len(pool), 8))))
    for _ in range(rng.randint(0, 3)):
        lines.append(_query(rng, pool, sketches, st))
    if rng.random() < 0.2:
        lines.append(f"select {rng.choice([21, 21, 21, 31])} {rng.choice([0, st, 2 * st, max(1, st // 2)])} {rng.randint(0, 1)}")
    if flavour == "legacy":
        lines.append(f"saveload 0 {rng.randint(0, 999)} {legacy_ver} {rng.choice([0, 0, 1, 3])}")
        lines.append("dump")
        for _ in range(rng.randint(1, 5)):
            r = rng.random()
            if r < 0.4:
                lines.append(_query(rng, pool, sketches, st))
            elif r < 0.65:
                lines.append("fillmin")
            elif r < 0.8:
                ins()
            elif r < 0.9:
                lines.append("fillint")
            else:
                lines.append("probe " + " ".join(str(h) for h in rng.sample(pool, min(len(pool), 6))))
            if rng.random() < 0.6:
                lines.append("dump")
        lines.append("dump")
        return lines
    if flavour == "combine":
        # a second tree with the same d and factory, then combine (either may be the larger), then use the result
        lines.append("dump")
        lines.append("stash")
        lines.append(f"new {d} {bf} {nt}" + ("" if st == 1 else f" {st}"))
        for _ in range(rng.choice([1, 1, 2, 3, rng.randint(1, 20), rng.randint(1, hi)])):
            ins()
        lines.append("dump")
        if rng.random() < 0.4:
            lines.append(_query(rng, pool, sketches, st))       # fills the node cache of the tree that will absorb the other
        lines.append("combine")
        lines.append("dump")
        for _ in range(rng.randint(1, 3)):
            lines.append(_query(rng, pool, sketches, st))
        if rng.random() < 0.5:
            lines.append(f"saveload {rng.choice([0, 0, 500])} {rng.randint(0, 999)} {rng.choice([6, 5, 4])} {rng.choice([0, 1, 3])}")
            lines.append("dump")
            lines.append(_query(rng, pool, sketches, st))
        if rng.random() < 0.5:
            for _ in range(rng.randint(1, 4)):
                ins()
            lines.append("dump")
            lines.append(_query(rng, pool, sketches, st))
        lines.append("dump")
        return lines
    if flavour == "damage":
        lines.append(f"saveload {rng.choice([0, 0, 0, 300])} {rng.randint(0, 999)} {rng.choice([6, 6, 5, 4, 3])} {rng.choice([0, 0, 1, 2])}")
        if rng.random() < 0.3:
            lines.append(_query(rng, pool, sketches, st))
        kind = rng.choice(["del", "del", "trunc", "empty", "delleaf", "swapleaf", "swap"])
        lines.append(f"damage {kind} {rng.randint(0, 40)}")
        for _ in range(rng.randint(2, 5)):
            lines.append(_query(rng, pool, sketches, st))
        lines.append("dump")
        lines.append(_query(rng, pool, sketches, st))
        return lines
    if flavour == "resave":
        # load from disk, insert, save to another location, keep using the tree in memory (with unloads / cache
        # evictions in between), and look at the saved copy as well
        sp0 = rng.choice([0, 0, 0, 0, 300, 1000])
        lines.append(f"saveload {sp0} {rng.randint(0, 999)} {rng.choice([6, 6, 6, 5, 4])} {rng.choice([0, 1, 2, 1, 2, 5])}")
        if rng.random() < 0.5:
            lines.append(_query(rng, pool, sketches, st))
        for _ in range(rng.randint(1, 4)):
            ins()
        if rng.random() < 0.4:
            lines.append(_query(rng, pool, sketches, st))
        for rnd in range(rng.choice([1, 1, 2])):
            lines.append(f"saveas {rng.choice([0, 0, 0, 500, 1000])} {rng.randint(0, 999)} {rng.randint(0, 2)}")
            for _ in range(rng.randint(2, 3)):
                lines.append(_query(rng, pool, sketches, st))
                if rng.random() < 0.6:
                    lines.append("dump")
            lines.append("dump")
            lines.append(f"checksaved {rng.choice([0, 1, 2])}")
            if rng.random() < 0.5:
                ins()
                lines.append(_query(rng, pool, sketches, st))
                lines.append("dump")
        if rng.random() < 0.3:
            lines.append("probe " + " ".join(str(h) for h in rng.sample(pool, min(len(pool), 6))))
        return lines
    if flavour in ("insert", "small", "big") and rng.random() < 0.6:
        lines.append("dump")
        return lines
    # save + load
    rounds = 1 if rng.random() < 0.8 else 2
    for _ in range(rounds):
        if flavour == "reinsert":
            sp = rng.choice([0, 0, 0, 300, 500, 1000])
        elif flavour == "sparse":
            sp = rng.choice(SPARSE + [500, 300, 900])
        else:
            sp = rng.choice([0, 0, 0, 500, 1000])
        ver = rng.choice([6, 6, 6, 5, 4, 3])
        cache = rng.choice([0, 0, 1, 1, 2, 3, 5, 50])
        lines.append(f"saveload {sp} {rng.randint(0, 999)} {ver} {cache}")
        lines.append("dump")
        nops = rng.randint(1, 6)
        for _ in range(nops):
            r = rng.random()
            if flavour == "reinsert" and r < 0.45:
                ins()
            elif r < 0.55:
                lines.append(_query(rng, pool, sketches, st))
            elif r < 0.70:
                lines.append(rng.choice(["rebuild 0", "rebuild 0", f"rebuildm {rng.randint(0, 40)}"]))
            elif r < 0.80:
                lines.append("fillint")
            elif r < 0.88:
                lines.append("fillmin")
            else:
                lines.append("probe " + " ".join(str(h) for h in rng.sample(pool, min(len(pool), 6))))
            if rng.random() < 0.6:
                lines.append("dump")
        lines.append("dump")
    return lines


# --------------------------------------------------------------------------
# property oracle: the Cover property read off the implementation's own tree, plus
# search == linear scan.  Written from the statement of C13.

def parse_dump(line):
    """-> dict pos -> {'kinds', 'id', 'len', 'minn', 'occ', 'cov', 'tot'} or None"""
    if not line.startswith("ok"):
        return None
    ent = {}
    for tok in line.split()[1:]:
        if tok.startswith("sv="):
            continue
        f = tok.split(":")
        p, kinds = int(f[0]), f[1]
        e = {"kinds": kinds}
        i = 2
        if "L" in kinds:
            e["id"], e["len"] = int(f[i]), int(f[i + 1])
            i += 2
        if "N" in kinds:
            e["minn"] = None if f[i] == "-" else int(f[i])
            e["occ"] = int(f[i + 1])
            c, t = f[i + 2].split("/")
            e["cov"], e["tot"] = int(c), int(t)
        ent[p] = e
    return ent


def ancestors(d, p):
    out = []
    while p != 0:
        p = (p - 1) // d
        out.append(p)
    return out


def _combine_context(case, upto):
    comb = [k for k in range(upto + 1) if case[k] == "combine"]
    if not comb:
        return None
    if any(l.startswith("ins") for l in case[comb[-1] + 1: upto + 1]):
        return "insert-after-combine"
    news = [k for k in range(comb[-1]) if case[k].startswith("new")]
    if news and any(l.startswith("search") for l in case[news[-1]: comb[-1]]):
        return "after-combine-with-cached-nodes"
    return "after-combine"


def context(case, upto):
    """which part of the statement a failure at op `upto` falls under"""
    saves = [k for k in range(upto + 1) if case[k].startswith("saveload")]
    if not saves:
        return _combine_context(case, upto) or "insert-only"
    if int(case[saves[-1]].split()[3]) <= 2:
        return "legacy-load"
    cc = _combine_context(case, upto)
    if cc:
        return cc
    if any(l.startswith("saveas") for l in case[saves[-1] + 1: upto + 1]):
        return "after-save-elsewhere"
    sparse = any(int(case[k].split()[1]) > 0 for k in saves)
    if any(l.startswith("ins") for l in case[saves[0] + 1: upto + 1]):
        return "insert-after-sparse-load" if sparse else "insert-after-full-load"
    return "sparse-load" if sparse else "full-load"


def leaf_passes(c, thr, q, hs):
    """the statement's own scoring: Jaccard (c=0), containment of the query (1), max containment (2)"""
    shared = len(set(q) & set(hs))
    if c == 1:
        denom = len(set(q))
    elif c == 2:
        denom = min(len(set(q)), len(set(hs)))
    else:
        denom = len(set(q) | set(hs))
    return denom != 0 and shared != 0 and shared * 1000 >= thr * denom


def as_compared(st, sq, q, hs):
    """query (made at scaled sq) and stored sketch (at scaled st) brought to the coarser of the two"""
    q = [h for h in q if h <= max_hash(sq)]
    cmp_scaled = max(st, sq)
    return [h for h in q if h <= max_hash(cmp_scaled)], [h for h in hs if h <= max_hash(cmp_scaled)]


def oracle(case, impl):
    out = []
    d = None
    st = 1
    damaged = None         # kind of the file damage applied to the index the tree was loaded from
    stash = None
    inserted = {}          # id -> hashes retained, for every insert the implementation accepted
    for k, (op, obs) in enumerate(zip(case, impl)):
        w = op.split()
        if not w:
            continue
        if w[0] == "new" and obs.startswith("ok"):
            d = int(w[1])
            st = int(w[4]) if len(w) > 4 else 1
            inserted = {}
            damaged = None
        elif w[0] == "stash" and obs.startswith("ok"):
            stash = dict(inserted)
        elif w[0] == "combine" and obs.startswith("ok") and stash is not None:
            inserted = {**inserted, **stash}
            stash = None
        elif w[0] == "damage" and obs != "bad-op":
            damaged = w[1]
        elif w[0] == "saveload" and obs.startswith("ok"):
            damaged = None
        elif w[0] == "ins" and obs.startswith("ok"):
            inserted[int(w[1])] = [int(x) for x in w[2:] if int(x) <= max_hash(st)]
        elif w[0] in ("dump", "checksaved") and d is not None:
            ent = parse_dump(obs)
            saved_copy = w[0] == "checksaved"
            if saved_copy and not inserted and obs.startswith("err ValueError"):
                continue            # an empty tree cannot be loaded ("Empty tree!")
            if damaged is not None and not saved_copy:
                if ent is None:
                    continue            # loud: reading the damaged file raised
                ctx = "damaged-" + damaged
            elif ent is None:
                out.append((k, "C13:dump-failed:" + ("saved-copy" if saved_copy else context(case, k)), f"walking the tree raised: {obs}"))
                continue
            else:
                ctx = "saved-copy" if saved_copy else context(case, k)
            svt = [t for t in obs.split() if t.startswith("sv=")]
            nleaf = sum(1 for e in ent.values() if "L" in e["kinds"])
            if svt and int(svt[0][3:]) != nleaf and damaged is None:
                out.append((k, "C13:views:signatures-stale-manifest",
                            f"tree.signatures() yields {svt[0][3:]} signatures, the tree holds {nleaf} leaves "
                            "(the manifest of a loaded tree is not told about insertions)"))
            leaves = {p: e for p, e in ent.items() if "L" in e["kinds"]}
            # structure
            ids = sorted(e["id"] for e in leaves.values())
            if ids != sorted(inserted):
                lost = sorted(set(inserted) - set(ids))
                out.append((k, "C13:leaf-lost:" + ctx,
                            f"signatures {lost[:5]} were inserted but are no longer leaves of the tree (leaves: {len(ids)}, inserted: {len(inserted)})"))
            for p, e in ent.items():
                if "L" in e["kinds"] and "N" in e["kinds"]:
                    out.append((k, "C13:structure:leaf-and-node:" + ctx, f"position {p} is both a leaf and an internal node"))
            minlen = {}
            for p, e in leaves.items():
                for a in ancestors(d, p):
                    minlen[a] = min(minlen.get(a, 1 << 62), e["len"])
                    if a in leaves:
                        out.append((k, "C13:structure:leaf-under-leaf:" + ctx, f"leaf {p} lies beneath leaf {a}"))
                    elif a not in ent:
                        out.append((k, "C13:structure:ancestor-absent:" + ctx,
                                    f"ancestor {a} of leaf {p} is neither a node nor recorded as missing"))
            # cover
            ctx0 = ctx
            for p, e in sorted(ent.items()):
                ctx = ctx0
                if "N" not in e["kinds"] or e["tot"] == 0:
                    continue
                if ctx == "sparse-load" and "M" in e["kinds"]:
                    ctx = "rebuilt-node-after-sparse-load"
                elif ctx == "sparse-load" and sum(1 for l in case[:k] if l.startswith("saveload")) >= 2:
                    ctx = "sparse-load-resaved"     # damage done by an earlier repair, saved and loaded again
                if e["cov"] != e["tot"]:
                    out.append((k, "C13:cover-broken:" + ctx,
                                f"internal node {p} answers 'absent' for a hash of {e['tot'] - e['cov']} of the {e['tot']} signatures beneath it"))
                    continue
                ml = minlen.get(p)
                if ml is None:
                    continue
                if e["minn"] is None:
                    out.append((k, "C13:cover-broken:" + ctx, f"internal node {p} has signatures beneath it but no min_n_below"))
                elif e["minn"] > max(1, ml):
                    out.append((k, "C13:cover-broken:" + ctx,
                                f"internal node {p} records min_n_below={e['minn']} but a signature of size {ml} lies beneath it"))
                elif e["minn"] > ml:
                    out.append((k, "C13:min_n_below-clamp:empty-sketch",
                                f"internal node {p} records min_n_below=1 above an empty sketch (size 0): the 0 -> 1 clamp"))
        elif w[0] in ("search", "searchs") and d is not None:
            c, thr = int(w[1]), int(w[2])
            sq = int(w[3]) if w[0] == "searchs" else st
            q = [int(x) for x in (w[4:] if w[0] == "searchs" else w[3:])]
            if not inserted:
                continue
            want = sorted(i for i, hs in inserted.items() if leaf_passes(c, thr, *as_compared(st, sq, q, hs)))
            ctx = context(case, k)
            if damaged is not None:
                if obs.startswith("ok"):
                    got = [int(x) for x in obs[2:].strip().split(",") if x]
                    if got != want:
                        out.append((k, "C13:damage:silent-wrong-answer:" + damaged,
                                    f"after the index lost/garbled a node file ({damaged}) search returned {got[:8]} without any error; "
                                    f"the stored signatures matching are {want[:8]}"))
                continue
            if not obs.startswith("ok"):
                out.append((k, "C13:search-differs:" + ctx, f"search raised {obs} (linear scan finds {want[:8]})"))
            else:
                got = [int(x) for x in obs[2:].strip().split(",") if x]
                if got != want:
                    out.append((k, "C13:search-differs:" + ctx,
                                f"search returned {got[:8]}, a linear scan of the stored signatures returns {want[:8]}"))
    return out


def nontrivial(case, impl):
    n_ins = sum(1 for l, o in zip(case, impl) if l.startswith("ins") and o.startswith("ok"))
    n_dump = sum(1 for l, o in zip(case, impl) if l == "dump" and o.startswith("ok "))
    return n_ins >= 3 and n_dump >= 1
