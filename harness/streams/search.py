"""The `search` correspondence stream (C06): one case = a table of sketches, a database, queries and
search / prefetch operations against every container type built from the same sketches.

Op grammar (see adapters/search_impl.py):
  sk <i> <num> <scaled> <track> <name> <h|h:a>...      define sketch i
  db <i>...                                            the database (ordered)
  q <i>                                                the query
  search|searchord <cont> <j|c|m> <best> <n> <d> <k>   threshold = fl(n/d) moved k ulps
  prefetch <cont> <threshold_bp> <best>
  best <cont> <threshold_bp>                           best_containment

The property oracle below is written from the statement of C06 with Python sets and exact integer /
correctly rounded arithmetic; it never looks at the Lean model.
"""
import math
import os
import re
import sys
from fractions import Fraction

sys.path.insert(0, os.path.dirname(os.path.dirname(os.path.abspath(__file__))))
import common  # noqa: E402
from streams.mh import parse_show, mh_for_scaled, U64  # noqa: E402

MODULE = "search"
ADAPTER = "search_impl.py"
KSIZE = 31
MAX_SQLITE_INT = 2 ** 63 - 1

LINEAR = ["lin", "lazy", "dir", "plist", "zip", "mf", "zipnm"]


# --------------------------------------------------------------------------
# canonicalisation / comparison

def canon_float(x):
    """the model's `F64.toStr`: odd mantissa `p` exponent"""
    if x == 0:
        return "0p0"
    f = Fraction(x)
    n, d = f.numerator, f.denominator
    e = 0
    while n % 2 == 0:
        n //= 2
        e += 1
    e -= d.bit_length() - 1
    return f"{n}p{e}"


def parse_canon(s):
    m, e = s.split("p")
    return Fraction(int(m)) * (Fraction(2) ** int(e))


def post_impl(lines):
    out = []
    for l in lines:
        if l.startswith("ok ") and len(l.split()) >= 3 and l.split()[2] in "EOBT" and not l.startswith("ok num="):
            w = l.split()
            items = []
            for it in w[3:]:
                name, md5, hx = it.rsplit("/", 2)
                items.append(f"{name}/{md5}/{canon_float(float.fromhex(hx))}")
            out.append(" ".join(w[:3] + items))
        else:
            out.append(l)
    return out


def _items(line, with_md5):
    """-> (flag, tag, [(name, score-string)])"""
    w = line.split()
    its = []
    for it in w[3:]:
        p = it.split("/")
        its.append((p[0], p[-1]))
    return w[1], w[2], its


def same(a, b):
    """a = implementation line, b = model line"""
    if not (a.startswith("ok ") and b.startswith("ok ") and not a.startswith("ok num=") and len(b.split()) >= 3
            and len(a.split()) >= 3 and a.split()[2] in "EOBT"):
        return a == b
    fa, ta, ia = _items(a, True)
    fb, tb, ib = _items(b, False)
    if fa != fb or ta != tb:
        return False
    if ta == "O":
        return ia == ib
    if ta == "E":
        return sorted(ia) == sorted(ib)
    # sub-multiset
    pool = list(ib)
    for x in ia:
        if x not in pool:
            return False
        pool.remove(x)
    if ta == "T":
        return len(ia) == (1 if ib else 0)
    # B: every maximal element of the full answer is present
    if not ib:
        return not ia
    mx = max(parse_canon(s) for _, s in ib)
    need = sorted(x for x in ib if parse_canon(x[1]) == mx)
    have = sorted(x for x in ia if parse_canon(x[1]) == mx)
    return need == have


# --------------------------------------------------------------------------
# the property's own reading

class Sk:
    def __init__(self, st, name):
        self.num, self.mh, self.sc, self.track = st["num"], st["mh"], st["sc"], st["tr"]
        self.hashes = list(st["mins"])
        self.ab = dict(zip(st["mins"], st["ab"])) if st["ab"] is not None else None
        self.name = name
        self.md5 = common.md5_of_pre(KSIZE, self.hashes)

    def at_scaled(self, S, M):
        import copy
        c = copy.copy(self)
        c.sc, c.mh, c.track = S, M, False
        c.ab = None
        c.hashes = [h for h in self.hashes if h <= M]
        c.md5 = common.md5_of_pre(KSIZE, c.hashes)
        return c


def down(sk, other):
    """the hash set of `sk` after downsampling to the coarser of the two scaled values"""
    if sk.sc >= other.sc:
        return set(sk.hashes)
    return {h for h in sk.hashes if h <= other.mh}


def sizes(q, d):
    """(query_size, shared, subject_size, total) computed directly from the two sketches"""
    if q.sc and d.sc:
        Q, D = down(q, d), down(d, q)
        return len(Q), len(Q & D), len(D), len(Q | D)
    if q.num and d.num:
        n = min(q.num, d.num)
        Q, D = set(sorted(q.hashes)[:n]), set(sorted(d.hashes)[:n])
        U = set(sorted(Q | D)[:n])
        return len(Q), len(Q & D & U), len(D), len(U)
    return None


def score_of(mode, qs, sh, ds, tot):
    if mode == "j":
        den = tot
    elif mode == "c":
        den = qs
    else:
        den = min(qs, ds)
    if den == 0 or sh == 0:
        return None
    return sh / den          # int / int: correctly rounded


def threshold_of(n, d, k):
    t = n / d
    if t == 0:
        return t
    if k > 0:
        t = math.nextafter(t, math.inf)
    elif k < 0:
        t = math.nextafter(t, -math.inf)
    return t


def brute(mode, thr, q, db):
    """[(pos, score)] of the database entries whose score is positive and meets the threshold"""
    out = []
    for pos, d in enumerate(db):
        s = sizes(q, d)
        if s is None:
            continue
        sc = score_of(mode, *s)
        if sc is not None and sc >= thr:
            out.append((pos, sc))
    return out


def brute_prefetch(bp, q, db):
    """overlap in base pairs = |Q' & D'| * (coarser scaled) >= threshold_bp, overlap > 0; score = containment"""
    out = []
    for pos, d in enumerate(db):
        if not (q.sc and d.sc):
            continue
        qs, sh, ds, tot = sizes(q, d)
        if sh > 0 and sh * max(q.sc, d.sc) >= bp:
            out.append((pos, sh / qs))
    return out


def kind_of(spec):
    return spec.split("-")[0]


def documented_refusal(op, spec, mode, q, db, bp=None):
    """exception class the container documents for this query, or None.  Sources: JaccardSearch.check_is_compatible,
    make_containment_query, Index.prefetch, SBT.select / LCA_Database.select / SqliteIndex._select docstrings and messages."""
    kind = kind_of(spec)
    indexed = kind in ("sbt", "lca", "sql", "lcasql")
    containment = (op != "search" and op != "searchord") or mode in ("c", "m")
    if indexed and db:
        d0 = db[0]
        if kind == "sbt":
            if containment and not d0.sc:
                return "ValueError"
            if q.num and (not d0.num or q.num != d0.num):
                return "ValueError"
            if q.sc and not d0.sc:
                return "ValueError"
            if q.sc and q.sc > d0.sc and not containment:
                return "ValueError"
        if kind == "lca":
            if q.num:
                return "ValueError"
            if q.sc > max(x.sc for x in db) and not containment:
                return "ValueError"
        if kind in ("sql", "lcasql") and q.num:
            return "ValueError"
    if op in ("prefetch", "best"):
        if not db:
            return "ValueError"
        if not q.hashes:
            return "ValueError"
        if not q.sc:
            return "TypeError"
        if bp and (float(bp) / q.sc) / len(q.hashes) > 1.0:
            return "ValueError"
    if containment and not q.sc:
        return "TypeError"
    if q.track:
        return "TypeError"
    return None


def loud_but_empty(op, spec, q, db, err):
    """errors that are not documented refusals but cannot hide a match: the brute-force answer is
    necessarily empty (empty database / query empty after downsampling).  Counted in the evidence."""
    kind = kind_of(spec)
    if not db and kind in ("sbt", "lca", "sql", "lcasql"):
        return True
    return False


def parse_case(case, impl):
    """-> list of (idx, op, args, obs, state) with state = (sketches, db ids, query id) at that op"""
    sk = {}
    db = []
    q = None
    out = []
    for idx, (line, obs) in enumerate(zip(case, impl)):
        w = line.split()
        if not w:
            continue
        if w[0] == "sk":
            st = parse_show(obs)
            if st is not None:
                sk[int(w[1])] = Sk(st, w[5])
        elif w[0] == "db" and obs.startswith("ok"):
            db = [int(x) for x in w[1:]]
        elif w[0] == "insert" and obs.startswith("ok"):
            db = db + [int(w[1])]
        elif w[0] == "insert" and obs.startswith("viewfail"):
            db = db + [int(w[1])]
            out.append((idx, "insert", w[1:], obs, (dict(sk), list(db), q)))
        elif w[0] == "q" and obs == "ok":
            q = int(w[1])
        elif w[0] in ("search", "searchord", "prefetch", "best", "clisearch", "cliprefetch"):
            out.append((idx, w[0], w[1:], obs, (dict(sk), list(db), q)))
    return out


STATS = {"tie_threshold_ops": 0, "cli_checked": 0, "cli_skipped": {}, "ops_by_container": {}, "documented_refusals": {}, "loud_but_empty": {}, "answers_checked": 0, "matches_checked": 0}


def _bump(d, k):
    d[k] = d.get(k, 0) + 1


def oracle(case, impl):
    """C06 on one case: every container returns exactly the brute-force matches, each with its score."""
    bad = []
    for idx, op, a, obs, (sk, dbids, qi) in parse_case(case, impl):
        if qi is None or qi not in sk or any(i not in sk for i in dbids) or obs == "bad-op":
            continue
        if obs.startswith("viewfail "):
            what = obs.split()[1]
            bad.append((idx, "C06:view:" + ":".join(what.split(":")[:2]),
                        f"`{case[idx]}`: two views of the same container / result disagree, or an earlier result changed: {what}"))
            continue
        if op == "insert":
            continue
        if op in ("clisearch", "cliprefetch"):
            oracle_cli(idx, op, a, obs, sk, qi, case, bad)
            continue
        q = sk[qi]
        db = [sk[i] for i in dbids]
        spec = a[0]
        kind = kind_of(spec)
        if kind in ("lca", "lcasql") and db and all(d.sc for d in db):
            # an LCA database has ONE scaled value: `insert` stores every sketch downsampled to it, and that
            # stored sketch is the subject of the search (and what is returned)
            S = max(x.sc for x in db)
            M = max(x.mh for x in db if x.sc == S)
            db = [d.at_scaled(S, M) for d in db]
        if op in ("search", "searchord"):
            mode, best = a[1], int(a[2])
            thr = threshold_of(int(a[3]), int(a[4]), int(a[5]))
            bp = None
        else:
            mode, best = "c", (1 if op == "best" else int(a[2]))
            bp = int(a[1])
        if obs.startswith("err-build"):
            continue        # the container does not accept this database (not a search result)
        _bump(STATS["ops_by_container"], kind)
        want_err = documented_refusal(op, spec, mode, q, db, bp)
        if obs.startswith("err "):
            cls = obs.split()[1]
            if loud_but_empty(op, spec, q, db, cls) and not db:
                _bump(STATS["loud_but_empty"], f"{kind}:{cls}:empty-database")
                continue
            if want_err is not None:
                _bump(STATS["documented_refusals"], f"{kind}:{cls}")
                if cls != want_err:
                    bad.append((idx, f"C06:refusal-class:{kind}:{cls}", f"`{case[idx]}`: refused with {cls}, the documented refusal is {want_err}"))
                continue
            if loud_but_empty(op, spec, q, db, cls):
                _bump(STATS["loud_but_empty"], f"{kind}:{cls}:query-empty-after-downsampling")
                continue
            if cls == "AssertionError" and kind not in ("sbt", "lca", "sql") and any(bool(d.num) != bool(q.num) for d in db):
                continue    # num and scaled sketches in one list: Index.find asserts (selection is C12's subject)
            bad.append((idx, f"C06:undocumented-refusal:{kind}:{cls}", f"`{case[idx]}`: raised {cls} on a query no document says is unsupported"))
            continue
        if want_err is not None:
            # answered although documented as refused: fine as long as the answer is right; fall through
            pass
        if any(bool(d.num) != bool(q.num) for d in db):
            continue
        flag, tag, items = obs.split()[1], obs.split()[2], obs.split()[3:]
        STATS["answers_checked"] += 1
        STATS["matches_checked"] += len(items)
        got = []
        for it in items:
            name, md5, s = it.rsplit("/", 2)
            got.append((name, md5, float(parse_canon(s))))
        if flag != "1":
            bad.append((idx, f"C06:unsorted:{kind}", f"`{case[idx]}`: search results are not sorted by descending score"))
        if op in ("prefetch", "best"):
            exp = brute_prefetch(bp, q, db)
        else:
            exp = brute(mode, thr, q, db)
            if any(sc == thr for _, sc in exp):
                STATS["tie_threshold_ops"] += 1      # the threshold IS the score of a database entry (exact tie)
        # expected as (name, md5, score); LCA returns the sketch as stored (downsampled to the database's scaled)
        def ident(pos):
            return db[pos].name, db[pos].md5
        expl = sorted(ident(p) + (s,) for p, s in exp)

        def why(missing, extra, wrong):
            """the specific shape of this failure"""
            qfiner = lambda name: any(d.name == name and d.sc > q.sc for d in db)
            # D6: a subject coarser than the query is wrongly kept or dropped; in best-only mode a wrongly kept one
            # also raises the threshold and thereby hides true matches
            if op in ("prefetch", "best") and q.sc and not wrong:
                culprits = extra if extra else missing
                if culprits and all(qfiner(x[0]) for x in culprits):
                    return "C06:prefetch-bp-threshold-converted-at-query-original-scaled"
            if missing:
                return f"C06:omitted:{kind}:{op}:{mode}"
            if extra:
                return f"C06:invented:{kind}:{op}:{mode}"
            return f"C06:score:{kind}:{op}:{mode}"

        gotl = sorted(got)
        if op == "best":
            top = [x for x in expl if x[2] == max(y[2] for y in expl)] if expl else []
            if not top and not gotl:
                continue
            want = sorted(top, key=lambda x: x[1])[:1]
            # ties on md5 (same content, different names): any of them
            ok = bool(gotl) and bool(top) and gotl[0][2] == top[0][2] and gotl[0][1] == want[0][1] and gotl[0] in top
            if not ok:
                # the culprit: the returned entry if it is no brute-force match at all, otherwise the omitted best one
                if gotl and gotl[0] not in expl:
                    missing, extra = [], gotl[:1]
                else:
                    missing, extra = [x for x in want if x not in gotl], []
                sig = why(missing, extra, [])
                bad.append((idx, sig, f"`{case[idx]}`: best_containment returned {gotl[:1]} but the best brute-force match is {want[:1]}"))
            continue
        if best or tag in ("B",):
            # best-only: everything returned is a brute-force match with its score, and the maximum is among them
            extra = [x for x in gotl if x not in expl]
            missing = []
            if expl:
                mx = max(x[2] for x in expl)
                missing = [x for x in expl if x[2] == mx and x not in gotl]
            if extra or missing:
                sig = why(missing, [x for x in extra if (x[0], x[1]) not in {(e[0], e[1]) for e in expl}],
                          [x for x in extra if (x[0], x[1]) in {(e[0], e[1]) for e in expl}])
                bad.append((idx, sig, f"`{case[idx]}` (best-only): returned {gotl[:4]}; brute force {expl[:4]}; "
                                      f"not brute-force matches: {extra[:3]}; maximal elements missing: {missing[:3]}"))
            continue
        if gotl != expl:
            pool = list(gotl)
            missing, wrong = [], []
            for x in expl:
                if x in pool:
                    pool.remove(x)
                    continue
                alt = [y for y in pool if y[0] == x[0] and y[1] == x[1]]
                if alt:
                    pool.remove(alt[0])
                    wrong.append(x)
                else:
                    missing.append(x)
            extra = pool
            sig = why(missing, extra, wrong)
            bad.append((idx, sig, f"`{case[idx]}`: returned {len(gotl)} expected {len(expl)}; missing {missing[:3]} invented {extra[:3]} "
                                  f"wrong score (expected shown) {wrong[:3]}; query scaled={q.sc} num={q.num} |Q|={len(q.hashes)}"))
    return bad



# --------------------------------------------------------------------------
# command-line tier

def _parse_cli_obs(obs):
    """'ok C=.. A=.. S=.. D=..' -> dict of lists"""
    d = {}
    for part in obs.split()[1:]:
        k, _, v = part.partition("=")
        d[k] = [] if v in ("-", "") else v.split(",")
    return d


def _db_groups(spec, sk):
    """'sig:0,1;lca:2' -> [(kind, [Sk as the database holds them])]"""
    out = []
    for part in spec.split(";"):
        kind, ids = part.split(":")
        ents = [sk[int(i)] for i in ids.split(",") if i != ""]
        if kind in ("lca", "lcasql") and ents:
            S = max(x.sc for x in ents)
            M = max(x.mh for x in ents if x.sc == S)
            ents = [e.at_scaled(S, M) for e in ents]
        out.append((kind, ents))
    return out


def _sql_query_empty(q, groups):
    """some .sqldb is coarser than the query and no query hash survives downsampling to it"""
    for kind, ents in groups:
        if kind == "sql" and ents and q.sc and ents[0].sc > q.sc and not [h for h in q.hashes if h <= ents[0].mh]:
            return True
    return False


def _code_prefetch_rule(bp, q, d):
    """what the code does (finding D6): fraction fixed at the query's original scaled and size"""
    qs, sh, ds, tot = sizes(q, d)
    if not qs or not sh:
        return False
    thr = (float(bp) / q.sc) / len(q.hashes) if bp else 0.0
    return sh / qs >= thr


EXT = {"sig": ".sig", "zip": ".zip", "sbt": ".sbt.zip", "lca": ".lca.json", "sql": ".sqldb", "lcasql": ".lca.sqldb"}
ORDERED_KINDS = ("sig", "dir", "zip", "mf")      # iteration order = the order the sketches were written in


def _expected_loc(idx, n, kind, j):
    """the location a row for entry j of database n must report (names are functions of the op's position)"""
    if kind in EXT:
        return f"c{idx}_{n}{EXT[kind]}"
    return f"c{idx}_{n}_{ {'dir': 'dir', 'mf': 'mf', 'plist': 'pl'}[kind] }/{j:03d}.sig".replace(" ", "")


def _angular(q, d):
    """abundance-weighted (angular) similarity after downsampling both to the coarser scaled"""
    if q.sc >= d.sc:
        A = dict(q.ab)
        B = {h: v for h, v in d.ab.items() if h <= q.mh}
    else:
        A = {h: v for h, v in q.ab.items() if h <= d.mh}
        B = dict(d.ab)
    na = math.sqrt(sum(v * v for v in A.values()))
    nb = math.sqrt(sum(v * v for v in B.values()))
    if na == 0 or nb == 0:
        return 0.0
    prod = min(1.0, sum(v * B.get(h, 0) for h, v in A.items()) / (na * nb))
    return 1.0 - 2.0 * math.acos(prod) / math.pi


def _linear_best_only(mode, thr, q, ents):
    """what one list-like database returns for a best-only search, in its own order"""
    out = []
    cur = thr
    for pos, d in enumerate(ents):
        s = sizes(q, d)
        if s is None:
            continue
        sc = score_of(mode, *s)
        if sc is not None and sc >= cur:
            out.append((pos, sc))
            cur = max(cur, sc)
    return out


def oracle_cli(idx, op, a, obs, sk, qi, case, bad):
    q = sk[qi]
    line = case[idx]
    try:
        groups = _db_groups(a[0], sk)
    except (KeyError, ValueError):
        return          # a shrunk / foreign case that no longer defines every sketch
    if obs == "bad-op":
        return
    nofail = obs.endswith(" F=1")           # the command was run with --no-fail-on-empty-database
    if nofail:
        obs = obs[:-4]
    if " R=differs" in obs:
        bad.append((idx, "C06:cli:repeat-differs", f"`{line}`: the same command run twice gave two different CSVs"))
    if op == "clisearch":
        mode, best, thr, nres, ignore = a[1], int(a[2]), float(a[3]), int(a[4]), int(a[5])
        containment = mode in ("c", "m")
        abund = q.track and not ignore
        if abund:
            # abundance-weighted search: containment is refused, a flat subject is refused (TypeError -> exit)
            po = set()
            if nofail:
                # (databases the selection refuses or empties are passed over BEFORE the search looks at their sketches)
                po = {n for n, (kind, ents) in enumerate(groups) if ents and (
                    (q.num and not any(d.num == q.num for d in ents)) or
                    (kind in ("sbt", "lca") and not containment and q.sc and q.sc > ents[0].sc))}
            if containment or any(not d.track for n, (_, ents) in enumerate(groups) if n not in po for d in ents):
                if not obs.startswith("exit"):
                    bad.append((idx, "C06:cli:abund-search-not-refused", f"`{line}`: {obs[:80]}"))
                _bump(STATS["cli_skipped"], "documented refusal (abundance query: containment, or a flat subject)")
                return
        if q.track and ignore:
            q = q.at_scaled(q.sc, q.mh)
        if not q.sc and containment:
            if not (obs.startswith("exit") or obs.startswith("err")):
                bad.append((idx, "C06:cli:containment-num-query-not-refused", f"`{line}`: {obs[:80]}"))
            return
        passed_over = set()
        if q.num and any(ents and not any(d.num == q.num for d in ents) for _, ents in groups):
            # documented: select(num=N) keeps only sketches with that num; an emptied database stops the command
            # (with --no-fail-on-empty-database it is passed over)
            if nofail:
                passed_over |= {n for n, (_, ents) in enumerate(groups) if ents and not any(d.num == q.num for d in ents)}
            else:
                if not obs.startswith("exit"):
                    bad.append((idx, "C06:cli:num-mismatch-not-refused", f"`{line}`: {obs[:80]}"))
                _bump(STATS["cli_skipped"], "documented refusal (num query against sketches of another num)")
                return
        if obs == "err ValueError" and mode == "j":
            _bump(STATS["cli_skipped"], "search aborted in ANI estimation (ValueError varN<0.0: finding D16 of C17)")
            return
        refused = any(kind in ("sbt", "lca") and ents and not containment and q.sc and q.sc > ents[0].sc
                      for kind, ents in groups)
        if refused and nofail:
            passed_over |= {n for n, (kind, ents) in enumerate(groups)
                            if kind in ("sbt", "lca") and ents and q.sc > ents[0].sc}
            STATS["cli_nofail_passed_over"] = STATS.get("cli_nofail_passed_over", 0) + 1
        elif refused:
            # documented: select() refuses a Jaccard search with a query coarser than the database; the command
            # reports it and stops (--fail-on-empty-database is the default)
            if not obs.startswith("exit"):
                bad.append((idx, "C06:cli:coarser-jaccard-not-refused", f"`{line}`: {obs[:80]}"))
            _bump(STATS["cli_skipped"], "documented refusal (Jaccard, query coarser than an SBT / LCA database)")
            return
        if obs == "err ValueError" and _sql_query_empty(q, groups):
            bad.append((idx, "C06:sqlite-empty-downsampled-query-raises",
                        f"`{line}`: sourmash search aborts with ValueError (max() of no hashes in SqliteIndex._get_matching_sketches): "
                        f"the query has no hash left at the scaled of one .sqldb; the other databases are not reported"))
            return
        if not obs.startswith("ok "):
            bad.append((idx, f"C06:cli:search-failed:{obs.split()[-1]}", f"`{line}`: sourmash search ended with `{obs}`"))
            return
        o = _parse_cli_obs(obs)
        got = []
        for it in o["C"]:
            name, md5, hx, floc, qn, qm = it.split("|")
            got.append((name, md5, float.fromhex(hx), floc, qn, qm))
        qname, qmd5 = o["Q"][0].split("/")
        for g in got:
            if (g[4], g[5]) != (qname, qmd5):
                bad.append((idx, "C06:cli:search-query-fields", f"`{line}`: row reports query {g[4]}/{g[5]}, the query is {qname}/{qmd5}"))
                break
        scores = [g[2] for g in got]
        if any(scores[i] < scores[i + 1] for i in range(len(scores) - 1)):
            bad.append((idx, "C06:cli:search-unsorted", f"`{line}`: CSV rows are not sorted by descending similarity"))
        if ["|".join(x.split("|")[:3]) for x in o["C"]] != o["A"]:
            bad.append((idx, "C06:cli:search-differs-from-api", f"`{line}`: CSV rows {o['C'][:3]} != in-process {o['A'][:3]}"))
        if sorted({f"{g[0]}/{g[1]}" for g in got}) != sorted(set(o["S"])):
            bad.append((idx, "C06:cli:save-matches-differs-from-rows", f"`{line}`: --save-matches holds {o['S'][:3]}, the CSV {o['C'][:3]}"))
        # what every database contributes: key -> (score, admissible (name, location) pairs), first database wins
        exp = {}
        exact = True
        dedup_lost = []
        for n, (kind, ents) in enumerate(groups):
            if not ents or n in passed_over:
                continue
            if abund:
                res = []
                for pos, d in enumerate(ents):
                    sc = _angular(q, d)
                    if abs(sc - thr) < 1e-9:
                        exact = False
                    if sc >= thr:
                        res.append((pos, sc))
            elif best:
                if kind in ORDERED_KINDS:
                    res = _linear_best_only(mode, thr, q, ents)
                else:
                    exact = False
                    res = brute(mode, thr, q, ents)
            else:
                res = brute(mode, thr, q, ents)
            if abund:
                res.sort(key=lambda x: -x[1])       # search_abund hands its matches over best first
            for pos, sc in res:
                d = ents[pos]
                # a duplicate is the same SKETCH: for an abundance search the abundances belong to the sketch
                key = (d.md5, d.sc, d.num) + ((tuple(sorted(d.ab.items())),) if abund else ())
                if key not in exp:
                    exp[key] = [sc, n, set()]
                if exp[key][1] == n or (best and any(k not in ORDERED_KINDS for k, _ in groups)):
                    # (best-only over a database of unknown order: which database yields a sketch first is not determined)
                    exp[key][2].add((d.name, _expected_loc(idx, n, kind, pos)))
        tol = 1e-9 if abund else 0.0

        def matches(g, key):
            e = exp[key]
            return g[1] == key[0] and abs(g[2] - e[0]) <= tol and (g[0], g[3]) in e[2]
        used = set()
        extra = []
        for g in got:
            ks = [k for k in exp if k not in used and matches(g, k)]
            if ks:
                used.add(ks[0])
            else:
                extra.append(g[:4])
        if abund:
            # same hashes, other abundances: another sketch (another angular similarity).  The code's duplicate key
            # (md5, scaled, num) does not see the abundances (finding C06.3): such a row is reported under its own name
            for k in [k for k in exp if k not in used]:
                kept = [u for u in used if u[:3] == k[:3]]
                if kept:
                    dedup_lost.append((sorted(exp[k][2])[0][0], exp[k][0], exp[kept[0]][0]))
                    used.add(k)
        missing = [(k[0], exp[k][0], sorted(exp[k][2])[:2]) for k in exp if k not in used]
        if best and not exact:
            # some database iterates in an order the oracle does not know: every row is a brute-force match; the
            # maxima of every database are present
            top = max((exp[k][0] for k in exp), default=None)
            missing = [m for m in missing if m[1] == top]
        if (extra or missing) and (exact or not abund):
            wrong_loc = [g for g in extra if any(g[1] == k[0] and abs(g[2] - exp[k][0]) <= tol for k in exp)]
            if extra and len(wrong_loc) == len(extra) and not missing or (wrong_loc and len(missing) == len(wrong_loc)):
                sig = "C06:cli:search-row-name-or-location"
            elif best:
                sig = "C06:cli:search-best-only"
            else:
                sig = f"C06:cli:search-{'omitted' if missing else 'invented'}:{'abund' if abund else mode}"
            bad.append((idx, sig, f"`{line}`: CSV rows not expected {extra[:3]}; expected rows missing {missing[:3]} "
                                  f"(of {len(got)} rows, {len(exp)} expected)"))
        if dedup_lost:
            bad.append((idx, "C06:cli:abund-search-drops-same-hashes-other-abundances",
                        f"`{line}`: {dedup_lost[:2]} (name, its score, score of the sketch kept) -- sketches with the same hashes but "
                        f"different abundances (same md5, different angular similarity) are de-duplicated away"))
        want_d = (1 if got else 0) if best else (len(got) if not nres else min(nres, len(got)))
        if int(o["D"][0]) != want_d:
            bad.append((idx, "C06:cli:num-results", f"`{line}`: {o['D'][0]} matches displayed, expected {want_d} of {len(got)}"))
        STATS["cli_checked"] += 1
        if abund:
            STATS["cli_abund_checked"] = STATS.get("cli_abund_checked", 0) + 1
        return
    # ---- prefetch
    bp = float(a[1])
    q0 = q
    if q.track:
        q = q.at_scaled(q.sc, q.mh)
    if not q.sc or not q.hashes:
        if not obs.startswith("exit"):
            bad.append((idx, "C06:cli:prefetch-bad-query-not-refused", f"`{line}`: {obs[:80]}"))
        return
    exp = []
    invented = []
    for kind, ents in groups:
        for d in ents:
            if not d.sc:
                continue
            qs, sh, ds, tot = sizes(q, d)
            S = max(q.sc, d.sc)
            ok = sh > 0 and sh * S >= bp
            if ok:
                exp.append((d.name, d.md5[:8], sh * S, S,
                            f"{len(q.hashes) * q.sc}:{len(d.hashes) * d.sc}:{len(q.hashes)}:{(sh / tot).hex()}:{KSIZE}:DNA:False"))
            if d.sc > q.sc and _code_prefetch_rule(bp, q, d) != ok:
                invented.append(d.name)
    if bp and (bp / q.sc) / len(q.hashes) > 1.0:
        if not obs.startswith("err ValueError"):
            bad.append((idx, "C06:cli:unattainable-threshold-not-refused", f"`{line}`: {obs[:80]}"))
        return
    if obs == "err ValueError" and _sql_query_empty(q, groups):
        bad.append((idx, "C06:sqlite-empty-downsampled-query-raises",
                    f"`{line}`: sourmash prefetch aborts with ValueError (max() of no hashes in SqliteIndex._get_matching_sketches)"))
        return
    if not obs.startswith("ok "):
        bad.append((idx, f"C06:cli:prefetch-failed:{obs.split()[-1]}", f"`{line}`: sourmash prefetch ended with `{obs}`"))
        return
    o = _parse_cli_obs(obs)
    got = []
    qname, qmd5 = o["Q"][0].split("/")
    for it in o["C"]:
        name, md5, rest, fields, floc, qn, qm = it.split("|")
        ibp, scd = rest.split(":")
        got.append((name, md5, int(float(ibp)), int(scd), fields))
        if (qn, qm) != (qname, qmd5):
            bad.append((idx, "C06:cli:prefetch-query-fields", f"`{line}`: row reports query {qn}/{qm}, the query is {qname}/{qmd5}"))
    if sorted(g[:4] for g in got) != sorted(e[:4] for e in exp):
        missing = [e[:4] for e in exp if e[:4] not in [g[:4] for g in got]]
        extra = [g[:4] for g in got if g[:4] not in [e[:4] for e in exp]]
        names = {x[0] for x in missing + extra}
        if invented and names <= set(invented):
            sig = "C06:prefetch-bp-threshold-converted-at-query-original-scaled"
        else:
            sig = f"C06:cli:prefetch-{'omitted' if missing else 'invented'}"
        bad.append((idx, sig, f"`{line}`: CSV rows {sorted(g[:4] for g in got)[:4]} expected {sorted(e[:4] for e in exp)[:4]}; "
                              f"missing {missing[:3]} extra {extra[:3]} (threshold_bp={bp})"))
    else:
        # the other columns: query_bp : match_bp : query_n_hashes : jaccard : ksize : moltype : query_abundance
        for g in got:
            if not any(g == e for e in exp):
                want = [e[4] for e in exp if e[:4] == g[:4]]
                bad.append((idx, "C06:cli:prefetch-row-fields", f"`{line}`: row for {g[0]} has query_bp:match_bp:query_n_hashes:jaccard:"
                                                                f"ksize:moltype:query_abundance = {g[4]}, expected {want[:2]}"))
                break
    if sorted(x.split("|")[0] + "/" + x.split("|")[1][:8] for x in o["A"]) != sorted(f"{g[0]}/{g[1]}" for g in got):
        bad.append((idx, "C06:cli:prefetch-differs-from-api", f"`{line}`: CSV rows {o['C'][:3]} != in-process {o['A'][:3]}"))
    if sorted({x.split("/")[0] + "/" + x.split("/")[1][:8] for x in o["S"]}) != sorted({f"{g[0]}/{g[1]}" for g in got}):
        bad.append((idx, "C06:cli:save-matches-differs-from-rows", f"`{line}`: --save-matches holds {o['S'][:3]}, the CSV {o['C'][:3]}"))
    # matching / unmatched query hashes at the coarsest scaled among the query and the matches
    by_name = {}
    for kind, ents in groups:
        for d in ents:
            by_name.setdefault((d.name, d.md5[:8]), d)
    ms = [by_name[(g[0], g[1])] for g in got if (g[0], g[1]) in by_name]
    common = max([q.sc] + [m.sc for m in ms])
    mhc = q.mh if common == q.sc else max(m.mh for m in ms if m.sc == common)
    Q = [h for h in q.hashes if h <= mhc]
    union = set()
    for m in ms:
        union |= {h for h in m.hashes if h <= mhc}
    K = sorted(h for h in Q if h in union)
    U = sorted(h for h in Q if h not in union)

    def dec(x):
        if not x:
            return None
        scd, _, hs = x[0].partition(":")
        return int(scd), [int(v) for v in hs.split(".") if v]
    if dec(o["K"]) != (common, K):
        bad.append((idx, "C06:cli:save-matching-hashes", f"`{line}`: --save-matching-hashes has {dec(o['K'])}, expected scaled {common} hashes {K[:6]}"))
    if dec(o["U"]) != (common, U):
        bad.append((idx, "C06:cli:save-unmatched-hashes", f"`{line}`: --save-unmatched-hashes has {dec(o['U'])}, expected scaled {common} hashes {U[:6]}"))
    STATS["cli_checked"] += 1


def nontrivial(case, impl):
    """at least one operation returned >= 2 matches and at least one returned fewer matches than the database holds"""
    many = few = False
    n = 0
    for l, o in zip(case, impl):
        if l.startswith("db "):
            n = len(l.split()) - 1
        if o.startswith("ok ") and not o.startswith("ok num=") and len(o.split()) >= 3 and o.split()[2] in "EOBT":
            k = len(o.split()) - 3
            many |= k >= 2
            few |= k < n
    return many and few


# --------------------------------------------------------------------------
# generator

SCALED_POOL = [1, 2, 3, 4, 10]


def _pool(rng, scaleds):
    """hash pool biased to the thresholds of the scaled values in play"""
    pool = set(range(1, 9))
    for s in scaleds + [max(scaleds) * 2]:
        M = mh_for_scaled(s)
        for dlt in (-2, -1, 0, 1, 2):
            if 0 < M + dlt <= U64:
                pool.add(M + dlt)
        pool.add(M // 2 + rng.randint(0, 5))
        pool.add(M - rng.randint(3, 1000))
    pool |= {2 ** 63 - 1, 2 ** 63, 2 ** 63 + 1, U64}
    return sorted(h for h in pool if 0 < h <= U64)


def _sketch_line(i, num, scaled, track, name, hashes, rng):
    if track:
        body = " ".join(f"{h}:{rng.choice([1, 1, 2, 5])}" for h in hashes)
    else:
        body = " ".join(str(h) for h in hashes)
    return f"sk {i} {num} {scaled} {int(track)} {name} {body}".rstrip()


def _rand_sbt(rng):
    return f"sbt-{rng.choice([2, 2, 3, 4, 5, 10])}-{rng.choice([3, 7, 11, 50, 1000])}-{rng.choice([0, 1, 2])}-{rng.randint(0, 1)}"


class _G:
    """generator-side sketch (content as the implementation will hold it)"""

    def __init__(self, num, sc, hashes, track=False):
        self.num, self.sc, self.track = num, sc, track
        self.mh = mh_for_scaled(sc) if sc else 0
        hs = sorted(set(h for h in hashes if (not sc or h <= self.mh)))
        if num:
            hs = hs[:num]
        self.hashes = hs
        self.name = "?"


def gen_order_case(rng):
    """a mixed-scaled list searched in BOTH orders (coarse subject before a finer one, and the reverse): whatever
    `Index.find` carries from one subject to the next (e.g. closures reading the reassigned `query_mh`) shows up as a
    difference between the two halves and against the oracle"""
    fine, coarse = rng.choice([(1, 4), (1, 10), (2, 4), (2, 10), (3, 10), (1, 2)])
    pool = _pool(rng, [fine, coarse])
    Mc = mh_for_scaled(coarse)
    low = [h for h in pool if h <= Mc]
    high = [h for h in pool if Mc < h <= mh_for_scaled(fine)]
    lines = []
    G = {}

    def mk(i, sc, hs):
        g = _G(0, sc, hs)
        g.name = f"s{i}"
        G[i] = g
        lines.append(_sketch_line(i, 0, sc, False, g.name, g.hashes, rng))
        return g
    nfine = rng.randint(1, 3)
    ncoarse = rng.randint(1, 2)
    ids_f, ids_c = [], []
    for i in range(nfine):
        mk(i, fine, rng.sample(low, min(len(low), rng.randint(2, 5))) + rng.sample(high, min(len(high), rng.randint(2, 5))))
        ids_f.append(i)
    for i in range(nfine, nfine + ncoarse):
        mk(i, coarse, rng.sample(low, min(len(low), rng.randint(2, 6))))
        ids_c.append(i)
    # the query is finer than the coarse subjects and shares hashes above their threshold with the fine ones
    q = mk(40, fine, rng.sample(low, min(len(low), rng.randint(2, 5))) + rng.sample(high, min(len(high), rng.randint(2, 6))))
    conts = ["lin", "lazy"] + rng.sample(LINEAR[2:], 2)
    ops = []
    for k in range(rng.randint(3, 5)):
        spec = ["lin", "lazy"][k] if k < 2 else rng.choice(conts)     # the containers that iterate in database order
        mode = rng.choice(["j", "c", "m"])
        fr = []
        for d in G.values():
            if d is q:
                continue
            qs, sh, ds, tot = sizes(q, d)
            den = tot if mode == "j" else qs if mode == "c" else min(qs, ds)
            if den and sh:
                fr.append((sh, den))
        n, dd = rng.choice(fr) if fr else (0, 1)
        ops.append(f"{'searchord' if spec == 'lin' and rng.random() < 0.5 else 'search'} {spec} {mode} 0 {n} {dd} {rng.choice([-1, 0, 0, 1])}")
    ops.append(f"prefetch {rng.choice(conts)} 0 0")
    for order in (ids_c + ids_f, ids_f + ids_c):
        lines.append("db " + " ".join(map(str, order)))
        lines.append("q 40")
        lines += ops
    return lines


def gen_cli_num_case(rng):
    """`sourmash search` on num sketches (one num value; a smaller-num query is downsampled by Index.find)"""
    num = rng.choice([3, 5, 8])
    pool = sorted(set(rng.sample(range(1, 60), 24)) | {2 ** 63, U64})
    core = rng.sample(pool, 6)
    lines, G = [], {}

    def mk(i, n):
        hs = [h for h in core if rng.random() < 0.7] + rng.sample(pool, rng.randint(1, 5))
        g = _G(n, 0, hs)
        g.name = f"s{i}"
        G[i] = g
        lines.append(_sketch_line(i, n, 0, False, g.name, g.hashes, rng))
        return g
    n = rng.randint(3, 8)
    for i in range(n):
        mk(i, num)
    lines.append("db " + " ".join(map(str, range(n))))
    for qid in (40, 41):
        q = mk(qid, rng.choice([num, num, num, max(2, num - 2)]))
        lines.append(f"q {qid}")
        for _ in range(2):
            ids = list(range(n))
            rng.shuffle(ids)
            k = rng.randint(1, min(2, n))
            parts = [rng.choice(["sig", "dir", "zip", "mf", "plist", "sbt"] if q.num == num else ["sig", "dir", "zip", "mf", "plist"])
                     + ":" + ",".join(map(str, ids[j::k])) for j in range(k)]
            fr = []
            for d in (G[i] for i in range(n)):
                qs, sh, ds, tot = sizes(q, d)
                if tot and sh:
                    fr.append(sh / tot)
            t = repr(rng.choice(fr)) if fr and rng.random() < 0.6 else rng.choice(["0", "0.08", "0.5"])
            mode = "j" if rng.random() < 0.85 else "c"
            lines.append(f"clisearch {';'.join(parts)} {mode} {int(rng.random() < 0.2)} {t} {rng.choice([0, 2, 20])} 1")
    return lines


def gen_cli_case(rng):
    if rng.random() < 0.12:
        return gen_cli_num_case(rng)
    return _gen_cli_case(rng)


def _gen_cli_case(rng):
    """command-line tier: a handful of sketches spread over 1-3 database files of different kinds, searched with
    `sourmash search` / `sourmash prefetch`; thresholds as decimal TEXT (exact repr of a score = a tie, a 3-digit rounding of
    it, the default 0.08), threshold-bp on / half a base pair around an occurring overlap"""
    scaleds = rng.sample([1, 2, 4, 10], rng.randint(1, 3))
    pool = _pool(rng, scaleds)
    core = rng.sample(pool, min(len(pool), rng.randint(4, 9)))
    lines = []
    G = {}

    def mk(i, sc, track=False, base=None):
        hs = list(base) if base is not None else [h for h in core if rng.random() < 0.7] + rng.sample(pool, rng.randint(1, 5))
        g = _G(0, sc, hs, track)
        g.name = f"s{i}"
        G[i] = g
        lines.append(_sketch_line(i, 0, sc, track, g.name, g.hashes, rng))
        return g
    n = rng.randint(3, 9)
    ra = rng.random()
    abund_db = ra < 0.35
    all_abund = ra < 0.15                   # every sketch tracks abundances: the abundance-weighted search applies
    for i in range(n):
        base = G[rng.randrange(i)].hashes if i and rng.random() < 0.1 else None
        mk(i, rng.choice(scaleds), track=(all_abund or (abund_db and rng.random() < 0.5)), base=base)
    lines.append("db " + " ".join(map(str, range(n))))

    def dbspec():
        ids = list(range(n))
        rng.shuffle(ids)
        k = rng.randint(1, min(3, n))
        groups = [ids[j::k] for j in range(k)]
        if rng.random() < 0.2 and k > 1:
            groups[1] = groups[1] + groups[0][:1]        # the same sketch in two databases
        parts = []
        for g in groups:
            kinds = ["sig", "dir", "zip", "mf", "plist"]
            homog = len({G[i].sc for i in g}) == 1
            flat = not any(G[i].track for i in g)
            if homog:
                kinds.append("sbt")
            if flat and len({G[i].name for i in g}) == len(g):
                kinds += ["lca", "lcasql"]
            if homog and flat:
                kinds += ["sql", "sql"]
            parts.append(rng.choice(kinds) + ":" + ",".join(map(str, g)))
        return ";".join(parts)
    qid = 40
    for _ in range(2):
        r = rng.random()
        sc = rng.choice(scaleds + [1, 2, 4, 10])
        src = G[rng.randrange(n)]
        base = (src.hashes + rng.sample(pool, 3)) if rng.random() < 0.5 else None
        q = mk(qid, sc, track=(r < 0.25 or (all_abund and r < 0.7)), base=base)
        lines.append(f"q {qid}")
        qid += 1
        db = [G[i] for i in range(n)]
        for _ in range(rng.randint(2, 3)):
            mode = rng.choice(["j", "c", "c", "m"])
            fr = []
            for d in db:
                qs, sh, ds, tot = sizes(q, d)
                den = tot if mode == "j" else qs if mode == "c" else min(qs, ds)
                if den and sh:
                    fr.append(sh / den)
            rr = rng.random()
            if fr and rr < 0.4:
                t = repr(rng.choice(fr))                 # exactly on a score
            elif fr and rr < 0.7:
                t = f"{rng.choice(fr):.3f}"              # the decimal a user would type
            else:
                t = rng.choice(["0", "0.08", "0.5", "1.0", "1e-1"])
            ignore = int(rng.random() < (0.3 if (all_abund and q.track) else 0.6))
            if all_abund and q.track and not ignore:
                mode = "j" if rng.random() < 0.85 else mode
                t = rng.choice(["0", "0.08", "0.3", "0.5", "0.9"])
            lines.append(f"clisearch {dbspec()} {mode} {int(rng.random() < 0.25)} {t} {rng.choice([0, 1, 2, 3, 20])} {ignore}")
        for _ in range(rng.randint(1, 2)):
            bps = [0.0]
            for d in db:
                qs, sh, ds, tot = sizes(q, d)
                if sh:
                    o = sh * max(q.sc, d.sc)
                    bps += [o, o - 0.5, o + 0.5, o - 1, o + 1, sh * q.sc, sh * q.sc + 0.25]
            bp = max(0.0, rng.choice(bps))
            lines.append(f"cliprefetch {dbspec()} {bp:g}")
    return lines


def gen_case(rng, flavour):
    if flavour == "order":
        return gen_order_case(rng)
    if flavour == "cli":
        return gen_cli_case(rng)
    return _gen_case(rng, flavour)


def _gen_case(rng, flavour):
    """flavour: 'mixed' (scaled sketches of several scaled values: linear family only + SBT/LCA where allowed),
    'homog' (one scaled value: every container), 'num' (num sketches: linear family + SBT), 'edge' (scaled 1/2 with hashes
    around 2^63: the SQLite signed mapping)"""
    lines = []
    if flavour == "num":
        nums = [rng.choice([3, 5, 8])]
        if rng.random() < 0.5:
            nums.append(rng.choice([2, 4, 6]))
        scaleds = [0]
        pool = sorted(set(rng.sample(range(1, 60), 24)) | {2 ** 63, U64})
    else:
        nums = [0]
        if flavour == "edge":
            scaleds = [rng.choice([1, 2])]
        elif flavour == "homog":
            scaleds = [rng.choice(SCALED_POOL)]
        else:
            scaleds = rng.sample(SCALED_POOL, rng.randint(2, 3))
        pool = _pool(rng, scaleds)
    ndb = rng.choice([0, 1, 2, 3, 4, 5, 6, 8, 10, 12, 16, 25]) if rng.random() < 0.5 else rng.randint(2, 9)
    core = rng.sample(pool, min(len(pool), rng.randint(3, 10)))
    G = {}

    def mk(i, num, sc, track=False, base=None):
        if base is not None:
            hs = list(base)
        else:
            r = rng.random()
            if r < 0.08:
                hs = []
            else:
                hs = [h for h in core if rng.random() < 0.7] + rng.sample(pool, rng.randint(0, min(6, len(pool))))
        g = _G(num, sc, hs, track)
        g.name = f"s{i}"
        G[i] = g
        lines.append(_sketch_line(i, num, sc, track, g.name, g.hashes, rng))
        return g

    allow_track = flavour in ("mixed", "num") and rng.random() < 0.4
    all_track = allow_track and rng.random() < 0.25     # every sketch with abundances: Index.search_abund applies
    dbids = []
    for i in range(ndb):
        base = None
        if i > 0 and rng.random() < 0.15:
            base = G[rng.choice(dbids)].hashes      # same content, other name (same md5)
        sc = rng.choice(scaleds)
        num = rng.choice(nums)
        mk(i, num, sc, track=(all_track or (allow_track and rng.random() < 0.25)), base=base)
        dbids.append(i)
    order = list(dbids)
    rng.shuffle(order)
    lines.append("db " + " ".join(map(str, order)))
    db = [G[i] for i in order]
    homog = len({(g.sc, g.num) for g in db}) <= 1 and not any(g.track for g in db)
    # containers this case may use
    conts = ["lin"] + rng.sample(LINEAR[1:], 2)
    if "zipnm" in conts and len({tuple(g.hashes) for g in db}) < len(db):
        # without its manifest a zip file only shows one of several members with the same md5 (C10's subject)
        conts[conts.index("zipnm")] = "zip"
    if flavour == "num":
        if len({g.num for g in db}) <= 1:
            conts.append(_rand_sbt(rng))
    elif homog:
        conts += [_rand_sbt(rng), "lca", "sql"] + (["lcasql"] if db else [])
        if rng.random() < 0.5:
            conts.append(_rand_sbt(rng))
    else:
        if len({g.sc for g in db}) <= 1:
            conts.append(_rand_sbt(rng))
        if not any(g.track for g in db) and db:
            conts.append("lca")     # mixed scaled values: `insert` downsamples every sketch to the database's scaled
    # queries: finer / equal / coarser than the database, one of the database entries, an empty one, a num one
    nq = rng.randint(2, 3)
    qid = 40
    for _ in range(nq):
        r = rng.random()
        if flavour == "num":
            g = mk(qid, rng.choice(nums + [rng.choice([1, 2, 3, 7])]), 0)
        else:
            if flavour == "edge":
                sc = rng.choice([1, 2, 2, 3])
            else:
                sc = rng.choice(SCALED_POOL + scaleds + scaleds)
            if r < 0.2 and db:
                src = rng.choice(db)
                g = mk(qid, 0, min(sc, src.sc) if rng.random() < 0.5 else src.sc, base=src.hashes + rng.sample(pool, 2))
            elif r < 0.25:
                g = mk(qid, rng.choice([3, 5]), 0)
            elif r < (0.75 if all_track else 0.29):
                g = mk(qid, 0, sc, track=True)
            else:
                g = mk(qid, 0, sc)
        lines.append(f"q {qid}")
        qid += 1
        q = g
        nops = rng.randint(3, 6)
        for _ in range(nops):
            if flavour in ("homog", "mixed") and rng.random() < 0.08 and len(db) < 30 and "zipnm" not in conts:
                # the database grows in the middle of a history: a new sketch (same kind as the others) is inserted
                tmpl = rng.choice(db) if db else None
                if tmpl is not None and not tmpl.track:
                    nid = 50 + sum(1 for k in G if 50 <= k < 64)
                    if nid > 63:
                        continue
                    g2 = mk(nid, tmpl.num, tmpl.sc)
                    lines.append(f"insert {nid}")
                    db.append(g2)
                    continue
            spec = rng.choice(conts)
            r = rng.random()
            if q.num and rng.random() < 0.8:
                r = 0.0                 # num queries: mostly Jaccard (everything else is a documented TypeError)
            if r < 0.62:
                mode = rng.choice(["j", "c", "m"]) if not (q.num and rng.random() < 0.8) else "j"
                # thresholds on exact score boundaries computed from the data
                fr = []
                for d in db:
                    s = sizes(q, d)
                    if s is None:
                        continue
                    qs, sh, ds, tot = s
                    den = tot if mode == "j" else qs if mode == "c" else min(qs, ds)
                    if den and sh:
                        fr.append((sh, den))
                if fr and rng.random() < 0.8:
                    n, dd = rng.choice(fr)
                    k = rng.choice([-1, 0, 0, 1])
                else:
                    n, dd, k = rng.choice([(0, 1, 0), (1, 1, 0), (1, 2, 0), (1, 10, 0), (1, 3, 1)])
                best = int(rng.random() < 0.2)
                op = "searchord" if (spec == "lin" and rng.random() < 0.3) else "search"
                lines.append(f"{op} {spec} {mode} {best} {n} {dd} {k}")
            else:
                bps = [0]
                for d in db:
                    if q.sc and d.sc:
                        qs, sh, ds, tot = sizes(q, d)
                        if sh:
                            bps += [sh * max(q.sc, d.sc) + dl for dl in (-1, 0, 1)]
                            bps += [sh * q.sc + dl for dl in (-1, 0, 1)]
                bp = max(0, rng.choice(bps))
                if r < 0.92:
                    lines.append(f"prefetch {spec} {bp} {int(rng.random() < 0.2)}")
                else:
                    lines.append(f"best {spec} {bp}")
    return lines
