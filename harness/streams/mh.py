"""The `mh` correspondence stream: histories of Python-API operations on a small
table of MinHash objects.  Serves C01 (content), C11 (md5), C03/C04 (downsample
and set operations in histories)."""
import os
import sys

sys.path.insert(0, os.path.dirname(os.path.dirname(os.path.abspath(__file__))))
import common  # noqa: E402

U64 = 2 ** 64 - 1
MODULE = "mh"
ADAPTER = "mh_impl.py"


def mh_for_scaled(s):
    if s == 0:
        return 0
    if s == 1:
        return U64
    return int(2.0 ** 64 / float(s))


SCALED_POOL = [1, 2, 3, 7, 10, 93, 99, 100, 1000, 2 ** 20, 2 ** 31, 186, 5000, 12345]
NUM_POOL = [1, 2, 3, 5, 20]
ABUND_POOL = [0, 1, 1, 1, 2, 3, 5, 7, 2 ** 32, 2 ** 40]


def gen_case(rng, flavour):
    """one history; flavour in {'content', 'md5', 'setops'} shifts the op weights"""
    lines = []
    is_num = rng.random() < 0.3
    scaled = 0 if is_num else rng.choice(SCALED_POOL)
    num = rng.choice(NUM_POOL) if is_num else 0
    M = mh_for_scaled(scaled)
    track0 = rng.random() < 0.5
    # hash pool, biased to the boundaries the property names
    pool = set()
    n_pool = rng.randint(2, 12)
    cands = [0, 1, 2 ** 63 - 1, 2 ** 63, U64, U64 - 1]
    if not is_num:
        cands += [M, M - 1, M + 1, M // 2, M + 2]
    while len(pool) < n_pool:
        r = rng.random()
        if r < 0.35:
            v = rng.choice(cands)
        elif r < 0.8 and not is_num:
            v = rng.randint(0, max(M, 1))
        elif r < 0.9:
            v = rng.randint(0, 50)
        else:
            v = rng.randint(0, U64)
        if 0 <= v <= U64:
            pool.add(v)
    pool = sorted(pool)
    nh = rng.randint(2, 4)
    live = {}
    for h in range(nh):
        tr = track0 if rng.random() < 0.8 else (not track0)
        sc, nm = scaled, num
        if rng.random() < 0.08:
            # an incompatible partner (other scaled / num): merges must be refused or documented
            if is_num:
                nm = rng.choice(NUM_POOL)
            else:
                sc = rng.choice(SCALED_POOL)
        lines.append(f"new {h} {nm} {sc} {int(tr)} 21 42")
        live[h] = (nm, sc, tr)
    nops = rng.randint(1, 60 if flavour != "setops" else 30)
    hv = lambda: rng.choice(pool)
    hd = lambda: rng.randrange(nh)
    nsig = 0
    for _ in range(nops):
        r = rng.random()
        h = hd()
        if flavour == "md5" and r < 0.12:
            # signature objects built from the sketches (implementation-only ops, prefixed '@')
            if nsig == 0 or rng.random() < 0.25:
                lines.append(f"sig {nsig} {h}")
                nsig += 1
            else:
                g = rng.randrange(nsig)
                c = rng.random()
                if c < 0.35:
                    lines.append(f"sigmd5 {g}")
                elif c < 0.72:
                    alphabet = "ACGT" if rng.random() < 0.8 else "ACGTN"
                    seq = "".join(rng.choice(alphabet) for _ in range(rng.randint(18, 40)))
                    lines.append(f"sigadd {g} {seq} {1 if 'N' in seq or rng.random() < 0.5 else 0}")
                elif c < 0.84:
                    lines.append(f"sigsetmh {g} {h}")
                elif nsig < 6:
                    lines.append(f"sigcopy {nsig} {g}")
                    nsig += 1
                else:
                    lines.append(f"sigmd5 {g}")
            continue
        if flavour == "md5" and r < 0.30:
            lines.append(rng.choice(["md5", "md5raw"]) + f" {h}")
            continue
        if flavour == "md5" and r < 0.33:
            # a signature holding several sketches (signature_push_mh); implementation only, judged by the oracle
            lines.append(f"@sigpush {h} " + " ".join(str(hd()) for _ in range(rng.randint(1, 3))))
            continue
        if r > 0.96:
            # k-mers of a sequence added to a plain sketch (MinHash.add_sequence / add_kmer / seq_to_hashes + add_many)
            alphabet = "ACGT" if rng.random() < 0.8 else "ACGTN"
            seq = "".join(rng.choice(alphabet) for _ in range(rng.randint(18, 40)))
            lines.append(f"addseq {h} {seq} {1 if 'N' in seq or rng.random() < 0.5 else 0}")
            continue
        if flavour == "setops" and r < 0.35:
            g = hd()
            res = rng.randrange(nh, nh + 3)
            op = rng.choice(["inter", "plus", "flat", "inflate", "down", "copy"])
            if op == "flat" or op == "copy":
                lines.append(f"{op} {res} {h}")
            elif op == "down":
                lines.append(f"down {res} {h} {rng.choice(SCALED_POOL + [scaled, scaled + 1, scaled * 2])}")
            else:
                lines.append(f"{op} {res} {h} {g}")
            continue
        r = rng.random()
        if r < 0.22:
            lines.append(f"add {h} {hv()}")
        elif r < 0.34:
            lines.append(f"addab {h} {hv()} {rng.choice(ABUND_POOL)}")
        elif r < 0.44:
            k = rng.randint(0, 6)
            lines.append(f"addmany {h} " + " ".join(str(hv()) for _ in range(k)))
        elif r < 0.50:
            lines.append(f"addfrom {h} {hd()}")
        elif r < 0.58:
            k = rng.randint(1, 3)
            lines.append(f"rm {h} " + " ".join(str(hv()) for _ in range(k)))
        elif r < 0.61:
            lines.append(f"rmfrom {h} {hd()}")
        elif r < 0.71:
            k = rng.randint(0, 5)
            keys = rng.sample(pool, min(k, len(pool)))
            rng.shuffle(keys)
            lines.append(f"setab {h} {rng.randint(0, 1)} " + " ".join(f"{x}:{rng.choice(ABUND_POOL)}" for x in keys))
        elif r < 0.75:
            lines.append(f"clear {h}")
        elif r < 0.85:
            lines.append(f"merge {h} {hd()}")
        elif r < 0.90:
            lines.append(f"copy {h} {hd()}")
        elif r < 0.93:
            lines.append(f"pickle {h} {hd()}")
        elif r < 0.96 and not is_num:
            lines.append(f"down {h} {hd()} {rng.choice([scaled, scaled + 1, scaled * 2, scaled * 3 + 1, 2 ** 20])}")
        elif r < 0.97 and is_num:
            lines.append(f"downnum {h} {hd()} {rng.choice([1, 2, num, max(1, num - 1), num + 1])}")
        elif r < 0.985:
            lines.append(f"cc {h} {hd()} {rng.randint(0, 1)}")
        else:
            lines.append(f"iu {h} {hd()}")
    return lines


def post_model(lines):
    """model prints md5 pre-images; apply md5"""
    out = []
    for l in lines:
        if l.startswith("sig k=") and " md5pre " in l:
            head, _, rest = l.partition(" md5pre ")
            parts = []
            for piece in ("md5pre " + rest).split(" | "):
                pp = piece.split(" ")
                k = int(pp[1])
                mins = [int(x) for x in pp[2].split(",")] if len(pp) > 2 and pp[2] else []
                parts.append("md5 " + common.md5_of_pre(k, mins))
            out.append(head + " " + " | ".join(parts))
            continue
        if l.startswith("md5pre "):
            parts = l.split(" ")
            k = int(parts[1])
            mins = [int(x) for x in parts[2].split(",")] if len(parts) > 2 and parts[2] else []
            out.append("md5 " + common.md5_of_pre(k, mins))
        else:
            out.append(l)
    return out


# --------------------------------------------------------------------------
# property oracles, written from the property statements (not from the model)

def parse_show(line):
    """'ok num=.. mh=.. sc=.. tr=.. mins=.. ab=..' -> dict or None"""
    if not line.startswith("ok num="):
        return None
    d = {}
    for p in line.split(" ")[1:]:
        k, _, v = p.partition("=")
        d[k] = v
    mins = [int(x) for x in d["mins"].split(",")] if d["mins"] else []
    if d["ab"] == "-":
        ab = None
    else:
        ab = [int(x) for x in d["ab"].split(",")] if d["ab"] else []
    return {"num": int(d["num"]), "mh": int(d["mh"]), "sc": int(d["sc"]), "tr": d["tr"] == "1",
            "mins": mins, "ab": ab}


class SpecSketch:
    """the property's own reading: a multiset of additions not since removed"""

    def __init__(self, num, mh, track):
        self.num, self.mh, self.track = num, mh, track
        self.cnt = {}
        self.lossy = False      # (num) an eviction has happened: bottom-n lost information
        self.removed_after_loss = False

    def clone(self):
        s = SpecSketch(self.num, self.mh, self.track)
        s.cnt = dict(self.cnt)
        s.lossy, s.removed_after_loss = self.lossy, self.removed_after_loss
        return s

    def add(self, h, a=1):
        if self.num == 0 and self.mh == 0:
            return
        if self.mh and h > self.mh:
            return
        if a == 0:
            self.remove(h)
            return
        self.cnt[h] = self.cnt.get(h, 0) + a
        self._note()

    def remove(self, h):
        if h in self.cnt:
            del self.cnt[h]
            if self.lossy:
                self.removed_after_loss = True

    def _note(self):
        if self.num and len(self.cnt) > self.num:
            self.lossy = True

    def view(self):
        keys = sorted(self.cnt)
        if self.num:
            keys = keys[:self.num]
        return keys, [self.cnt[k] for k in keys]


def view_hits(case, impl, prop):
    """the adapter's own checks: two views of one object, two routes to one operation or two moments of an object
    no operation touched disagree in the REAL code (`err ViewDisagreement <what>`): a hit by itself"""
    out = []
    for idx, (op, obs) in enumerate(zip(case, impl)):
        if obs.startswith("err ViewDisagreement"):
            out.append((idx, f"{prop}:views:{op.split()[0]}",
                        f"after `{op[:80]}` the implementation disagrees with itself: {obs[21:].replace('_', ' ')}"))
    return out


def oracle_content(case, impl):
    """C01: after every op the touched sketch equals the retained view of the spec multiset.
    returns list of (op_index, signature, message)"""
    S = {}
    bad = view_hits(case, impl, "C01")
    for idx, (op, obs) in enumerate(zip(case, impl)):
        w = op.split()
        o = w[0]
        a = w[1:]
        st = parse_show(obs)
        err = obs.startswith("err ")
        try:
            tgt = None
            if o in ("new", "newmh"):
                if st is None:
                    continue
                r = int(a[0])
                S[r] = SpecSketch(st["num"], st["mh"], st["tr"])
                tgt = r
            elif err or obs == "bad-op":
                continue
            elif o == "add":
                tgt = int(a[0]); S[tgt].add(int(a[1]))
            elif o == "addab":
                tgt = int(a[0]); S[tgt].add(int(a[1]), int(a[2]))
            elif o == "addmany":
                tgt = int(a[0])
                for x in a[1:]:
                    S[tgt].add(int(x))
            elif o == "addfrom":
                tgt, g = int(a[0]), int(a[1])
                for x in list(S[g].view()[0]):
                    S[tgt].add(x)
                if S[g].removed_after_loss:
                    S[tgt].removed_after_loss = S[tgt].lossy = True
            elif o == "rm":
                tgt = int(a[0])
                for x in a[1:]:
                    S[tgt].remove(int(x))
            elif o == "rmfrom":
                tgt, g = int(a[0]), int(a[1])
                for x in list(S[g].view()[0]):
                    S[tgt].remove(x)
            elif o == "setab":
                tgt = int(a[0])
                if a[1] == "1":
                    S[tgt].cnt = {}
                    S[tgt].lossy = S[tgt].removed_after_loss = False
                prs = [(int(p.split(":")[0]), int(p.split(":")[1])) for p in a[2:]]
                if S[tgt].num and any(v == 0 for _, v in prs) and \
                        len(set(S[tgt].cnt) | {k for k, v in prs if v > 0}) > S[tgt].num:
                    # a batch that both overflows a num sketch and removes: whichever order the batch is
                    # applied in, an eviction can precede the removal (the D21 situation inside one call)
                    S[tgt].lossy = S[tgt].removed_after_loss = True
                for k, v in prs:
                    S[tgt].add(k, v)
            elif o == "addseq":
                # which hashes a sequence yields is C02's subject: take the new hashes from the observation, but
                # nothing that was there may be lost or change its count except by num eviction, and every new hash
                # counts at least once
                tgt = int(a[0])
                if st is None:
                    continue
                before = dict(S[tgt].cnt)
                obs = dict(zip(st["mins"], st["ab"] or [1] * len(st["mins"])))
                for k2, v2 in obs.items():
                    if k2 not in before or (S[tgt].track and v2 > before[k2]):
                        S[tgt].add(k2, v2 - (before.get(k2, 0) if S[tgt].track else 0))
            elif o == "clear":
                tgt = int(a[0])
                S[tgt].cnt = {}
                S[tgt].lossy = S[tgt].removed_after_loss = False
            elif o == "merge":
                tgt, g = int(a[0]), int(a[1])
                ks, vs = S[g].view()
                for k, v in zip(ks, vs):
                    S[tgt].add(k, v if S[g].track else 1)
                if S[g].removed_after_loss:
                    S[tgt].removed_after_loss = S[tgt].lossy = True
                if st is not None and st["tr"] != S[tgt].track:
                    bad.append((idx, "C01:merge-changes-abundance-tracking",
                                f"`{op}`: merging changed track_abundance of the receiving sketch to {st['tr']}"))
            elif o in ("copy", "pickle"):
                tgt, g = int(a[0]), int(a[1])
                S[tgt] = S[g].clone()
            elif o == "down":
                tgt, g = int(a[0]), int(a[1])
                if st is not None and int(a[2]) <= 2 ** 31 and (st["sc"] != int(a[2]) or st["num"] != 0):
                    bad.append((idx, "C01:down:reported-scaled",
                                f"`{op}`: asked for scaled={a[2]}, the result reports scaled={st['sc']} num={st['num']}"))
                n = SpecSketch(0, st["mh"], S[g].track)
                ks, vs = S[g].view()
                for k, v in zip(ks, vs):
                    n.add(k, v)
                S[tgt] = n
            elif o == "downnum":
                tgt, g = int(a[0]), int(a[1])
                if st is not None and st["num"] != int(a[2]):
                    bad.append((idx, "C01:down:reported-num", f"`{op}`: asked for num={a[2]}, the result reports num={st['num']}"))
                n = S[g].clone()
                n.num = st["num"]
                n._note()          # truncation to a smaller num is an eviction
                S[tgt] = n
            elif o in ("plus",):
                tgt, h, g = int(a[0]), int(a[1]), int(a[2])
                n = S[h].clone()
                ks, vs = S[g].view()
                for k, v in zip(ks, vs):
                    n.add(k, v if S[g].track else 1)
                S[tgt] = n
            elif o == "flat":
                tgt, g = int(a[0]), int(a[1])
                n = S[g].clone(); n.track = False
                S[tgt] = n
            elif o == "inter":
                tgt, h, g = int(a[0]), int(a[1]), int(a[2])
                n = SpecSketch(S[h].num, S[h].mh, False)
                if S[h].num:
                    # documented num intersection: common hashes that are in the bottom-n of the union
                    u = sorted(set(S[h].view()[0]) | set(S[g].view()[0]))[:S[h].num]
                    for k in S[h].view()[0]:
                        if k in S[g].cnt and k in set(S[g].view()[0]) and k in u:
                            n.cnt[k] = 1
                else:
                    for k in S[h].view()[0]:
                        if k in S[g].cnt:
                            n.cnt[k] = 1
                n.lossy, n.removed_after_loss = S[h].lossy or S[g].lossy, S[h].removed_after_loss or S[g].removed_after_loss
                S[tgt] = n
            elif o == "inflate":
                tgt, h, g = int(a[0]), int(a[1]), int(a[2])
                n = SpecSketch(S[g].num, S[g].mh, True)
                for k in S[h].view()[0]:
                    if k in S[g].cnt:
                        n.cnt[k] = S[g].cnt[k]
                S[tgt] = n
            else:
                continue
        except KeyError:
            continue
        if tgt is None or st is None:
            continue
        sp = S[tgt]
        keys, vals = sp.view()
        if any(v > U64 for v in vals):
            return bad + [(idx, "skip:overflow", "abundance sum exceeds u64 (outside the stated assumption)")]
        exp_ab = vals if sp.track else None
        if st["mins"] != keys or (st["tr"] and sp.track and st["ab"] != exp_ab):
            if sp.num and sp.removed_after_loss:
                sig = "C01:num-remove-after-eviction"
            else:
                sig = "C01:content:" + o
            bad.append((idx, sig, f"after `{op}`: sketch holds mins={st['mins'][:8]} ab={st['ab'][:8] if st['ab'] else st['ab']}"
                                    f" but the retained additions are mins={keys[:8]} ab={exp_ab[:8] if exp_ab else exp_ab}"))
            # resynchronise so that one divergence is reported once
            sp.cnt = {k: (v if st["ab"] is None else st["ab"][i]) for i, (k, v) in
                      enumerate(zip(st["mins"], st["ab"] or [1] * len(st["mins"])))}
    return bad


def oracle_md5(case, impl, ksize=21):
    """C11: every md5 answer equals the digest of the k-mer size and the current hashes."""
    cur = {}
    bad = view_hits(case, impl, "C11")
    for idx, (op, obs) in enumerate(zip(case, impl)):
        w = op.split()
        if obs.startswith("sig k=") and " md5 " in obs:
            head, _, rest = obs.partition(" md5 ")
            f = dict(p.split("=", 1) for p in head.split(" ")[1:] if "=" in p)
            mins = [int(x) for x in f["mins"].split(",")] if f.get("mins") else []
            exp = common.md5_of_pre(int(f["k"]), mins)
            got = [x.replace("md5 ", "").strip() for x in ("md5 " + rest).split(" | ")]
            if w[0] in ("sig", "sigsetmh") and len(w) == 3 and int(w[2]) in cur and mins != cur[int(w[2])]:
                bad.append((idx, "C11:signature-content", f"after `{op}` the signature holds {len(mins)} hashes {mins[:4]}.. "
                                                          f"but the sketch it was given holds {cur[int(w[2])][:4]}.. ({len(cur[int(w[2])])})"))
            if any(g != exp for g in got):       # a view that disagrees is printed as `<value>(<view name>)`
                bad.append((idx, "C11:stale-md5:signature", f"after `{op}` the signature reports md5 {got[0]} (its sketch: {got[-1]}) "
                                                             f"but the digest of k={f['k']} and its current {len(mins)} hashes is {exp}"))
            continue
        if op.startswith("@sigpush") and obs.startswith("sigs "):
            for piece in obs[5:].split(" | "):
                f = dict(p.split("=", 1) for p in piece.split(";") if "=" in p)
                mins = [int(x) for x in f["mins"].split(",")] if f.get("mins") else []
                exp = common.md5_of_pre(int(f["k"]), mins)
                if f["md5"] != exp:
                    bad.append((idx, "C11:stale-md5:signature:multi", f"after `{op}` a sketch of a multi-sketch signature is saved with "
                                f"md5sum {f['md5']} but the digest of k={f['k']} and its {len(mins)} hashes is {exp}"))
            continue
        if op.startswith("@") and obs.startswith("sig md5="):
            f = dict(p.split("=", 1) for p in obs.split(" ")[1:] if "=" in p)
            mins = [int(x) for x in f["mins"].split(",")] if f.get("mins") else []
            exp = common.md5_of_pre(int(f["k"]), mins)
            if f["md5"] != exp or f["mhmd5"] != exp:
                bad.append((idx, "C11:stale-md5:signature", f"after `{op}` the signature reports md5 {f['md5']} (its sketch: {f['mhmd5']}) "
                                                             f"but the digest of k={f['k']} and its current {len(mins)} hashes is {exp}"))
            elif f["repr"] not in (exp[:8], "'" + exp[:8] + "'") and f["name"] == "''" and False:
                pass
            continue
        st = parse_show(obs)
        if st is not None and w[0] not in ("cc", "iu"):
            # the op's target handle is always its first argument
            cur[int(w[1])] = st["mins"]
        if w[0] in ("md5", "md5raw") and obs.startswith("md5 "):
            h = int(w[1])
            if h not in cur:
                continue
            exp = common.md5_of_pre(ksize, cur[h])
            if obs != "md5 " + exp:
                prev = [c.split()[0] for c in case[:idx]]
                bad.append((idx, "C11:stale-md5", f"`{op}` answered {obs[4:]} but the digest of k={ksize} and "
                                                   f"the current {len(cur[h])} hashes is {exp}; history ops: {prev[-6:]}"))
    return bad


def nontrivial(case, impl):
    """at least 3 ops changed the observed state of some sketch"""
    changes = 0
    last = {}
    for op, obs in zip(case, impl):
        w = op.split()
        if obs.startswith("ok num=") and len(w) > 1 and last.get(w[1]) != obs:
            changes += 1
            last[w[1]] = obs
    return changes >= 3
