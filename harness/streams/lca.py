"""The `lca` correspondence stream (C18).

One case = a history of operations on a table of signatures and a table of LCA databases.

ops (one line each; tokens: `-` = empty/None, `~` = space inside names):
  sig r name filename scaled num ksize h1,h2,..   SourmashSignature(MinHash(num, ksize, scaled=).add_many(..))
  db d ksize scaled                               LCA_Database(ksize, scaled)
  ins d r ident lineage                           D[d].insert(S[r], ident=, lineage=)   lineage = rank:name,rank:name
  len d | la d h [min_num] | ids d h | hv d | sigs d
  down d scaled                                   D[d].downsample_scaled(scaled)
  json d e | sql d e                              D[e] = LCA_Database.load(D[d].save(tmp, format=))
  lca L1|L2|..                                    find_lca(build_tree([..])) by lca_utils AND tax_utils.LineageTree
  summ thr ignore_abund d1,d2 h:c,h:c             command_summarize.summarize
  cls thr majority d1,d2 h1,h2                    command_classify.classify_signature
  pop rank lineage                                lca_utils.pop_to_rank

rank i < 8 is taxlist()[i] (other i: a rank outside taxlist); name 0 is "" and name n is "t<n>".

The oracle (`oracle`) is written from the property statement: it keeps, per database, the
relation {(ident, name, sketch hashes, lineage)} of the signatures the implementation accepted
and derives every answer from it (hash h belongs to a signature *at scaled S* iff it is in the
sketch and h <= max_hash(S)); it shares no code with the Lean model.
"""
import os
import sys

sys.path.insert(0, os.path.dirname(os.path.dirname(os.path.abspath(__file__))))
import common  # noqa: E402

MODULE = "lca"
ADAPTER = "lca_impl.py"
U64 = 2 ** 64 - 1
NRANKS = 8


def max_hash(S):
    "threshold of a sketch built at scaled S (what MinHash(scaled=S)._max_hash is)"
    if S == 0:
        return 0
    if S == 1:
        return U64
    return min(int(2.0 ** 64 / float(S)), U64)


def py_max_hash(S):
    "_get_max_hash_for_scaled(S): the Python-side rounding (used only to aim the generator at it)"
    if S == 0:
        return 0
    if S == 1:
        return U64
    return min(int(round(U64 / S, 0)), U64)


# scaled values: small ones (threshold far above the small hashes), ones where the two roundings
# coincide (10, 100: the boundary hash of D9 exists) and ones where they differ (10000, 12345)
SCALED_POOL = [1, 2, 3, 10, 10, 100, 1000, 10000, 12345, 2 ** 20]


def tok(s):
    return "-" if s == "" else s.replace(" ", "~").replace("\t", "^")


def untok(t):
    return "" if t == "-" else t.replace("~", " ").replace("^", "\t")


# first words of signature names / spreadsheet identifiers: 0, 1, 2, 3 periods, leading / trailing period,
# NCBI `|` style; and what may follow the first word
WORD_FORMS = ["s{i}", "acc{i}.{v}", "MGYG{i}.000{i}.{v}", "a{i}.b.c.{v}", "trail{i}.", "gi|{i}|ref|NC_{i}.{v}|",
              "GCF_{i}.{v}", "w{i}.{v}.x"]
TAILS = ["", " G{i} sp", "  two spaces", " strain K-12 substr. MG1655", "\tafter a tab", " x\ty", " ."]


def gen_name(rng, i, allow_leading=False):
    w = rng.choice(WORD_FORMS + ([".lead{i}"] if allow_leading else [])).format(i=i, v=rng.randint(1, 3))
    return w + rng.choice(TAILS).format(i=i)


def doc_norm(ident, si, kv):
    "the documented normalisation of --split-identifiers / --keep-identifier-versions, the same for both sides"
    if si:
        ident = ident.split(" ")[0]
        if not kv:
            ident = ident.split(".")[0]
    return ident


def sig_md5(ksize, mol, scaled, num, hs):
    """md5sum of the sketch MinHash(num, ksize, scaled=, <moltype>).add_many(hs): the digest of the internal k-mer
    size (3k for protein/dayhoff/hp) followed by the retained hashes"""
    if num:
        kept = sorted(set(hs))[:num]
    else:
        M = max_hash(scaled)
        kept = sorted(h for h in set(hs) if h <= M)
    return common.md5_of_pre(ksize * 3 if mol else ksize, kept)


def show_lineage(l):
    return "()" if not l else ",".join(f"{r}:{n}" for r, n in l)


def join_or(sep, xs):
    return sep.join(xs) if xs else "-"


# --------------------------------------------------------------------------
# generator

def gen_lineage(rng, taxa, kind=None):
    """a positional lineage (rank i at position i) of depth 1..8 drawn from the small taxonomy `taxa`
    (a list of root-to-leaf name paths); kinds: full / partial / gap (a missing interior rank) /
    padded (trailing empty names)"""
    path = rng.choice(taxa)
    kind = kind or rng.choice(["full", "partial", "partial", "gap", "padded", "full"])
    depth = len(path)
    if kind == "partial":
        depth = rng.randint(1, len(path))
    names = list(path[:depth])
    if kind == "gap" and depth >= 3:
        i = rng.randint(1, depth - 2)
        names[i] = 0
    if kind == "padded":
        names += [0] * rng.randint(1, NRANKS - depth) if depth < NRANKS else []
    if all(n == 0 for n in names):
        names[0] = path[0]
    return tuple((i, n) for i, n in enumerate(names))


def gen_taxonomy(rng):
    "a handful of root-to-leaf paths with shared prefixes; names are small ids, reused across ranks on purpose"
    n = rng.randint(2, 6)
    paths = []
    for _ in range(n):
        if paths and rng.random() < 0.7:
            base = rng.choice(paths)
            keep = rng.randint(1, len(base))
            p = list(base[:keep])
        else:
            p = []
        depth = rng.randint(max(len(p), 2), NRANKS)
        while len(p) < depth:
            p.append(rng.randint(1, 9))
        paths.append(tuple(p))
    return paths


def gen_free_lineage(rng):
    "for the find_lca sub-stream: arbitrary (rank, name) sequences, including non-positional ones and empty names"
    n = rng.randint(0, 6)
    mode = rng.random()
    if mode > 0.85:
        n = rng.randint(5, 20)            # LIN / ICTV style: many positions, few different values per position
    out = []
    for i in range(n):
        rank = i if (mode < 0.6 or mode > 0.85) else rng.randint(0, 9)
        name = 0 if rng.random() < 0.15 else rng.randint(1, 3)
        out.append((rank, name))
    return tuple(out)


NAME_FORMS = ["s{i}", "GCF_{i}.{v}~G{i}~sp", "acc{i}.{v}", "s{i}", "GCF_{i}.{v}~G{i}~sp"]


def gen_case(rng, flavour):
    """flavours: 'db' (inserts + queries), 'forms' (json / sql conversions), 'down' (downsample_scaled,
    boundary hashes), 'fn' (find_lca / pop_to_rank sub-stream), 'summ' (summarize / classify),
    'big' (sketches of 52..130 hashes: more than one batch in _signatures)"""
    if flavour == "fn":
        return gen_fn_case(rng)
    if flavour == "index":
        return gen_index_case(rng)
    if flavour == "cli":
        return gen_cli_case(rng)
    lines = []
    S_db = rng.choice(SCALED_POOL)
    S2 = rng.choice([s for s in SCALED_POOL if s >= S_db] + [S_db * 2, S_db * 10])
    if flavour == "down" and S2 == S_db:
        S2 = S_db * 10
    M, M2, P2 = max_hash(S_db), max_hash(S2), py_max_hash(S2)
    ksize = 21
    mol = 0 if rng.random() < 0.85 else rng.randint(1, 3)        # protein / dayhoff / hp databases
    if mol:
        ksize = rng.choice([7, 10])
    molopt = f" mol={mol}" if mol else ""
    # hash pool: small values (heavy sharing) + the thresholds of both scaled values and their neighbours
    small = rng.sample(range(1, 40), rng.randint(3, 9))
    if flavour == "big":
        small = rng.sample(range(1, 400), rng.randint(52, 130))   # more than one batch of _signatures
    edge = [M, M - 1, M + 1, M2, M2 - 1, M2 + 1, P2, P2 - 1, P2 + 1, M // 2, M2 // 2]
    if S_db <= 2:
        edge += [2 ** 63 - 1, 2 ** 63, 2 ** 63 + 1, U64]
    edge = [h for h in edge if 0 <= h <= U64]
    pool = sorted(set(small + rng.sample(edge, rng.randint(2, min(7, len(edge))))))
    taxa = gen_taxonomy(rng)
    nsig = rng.randint(1, 12) if flavour != "big" else rng.randint(2, 4)
    use_sql = flavour in ("forms", "down", "summ") or rng.random() < 0.2
    lin_pool = [gen_lineage(rng, taxa) for _ in range(rng.randint(1, 4))]
    sigs = []
    for i in range(nsig):
        form = rng.choice(NAME_FORMS)
        name = form.format(i=i, v=rng.randint(1, 3))
        r = rng.random()
        if r < 0.08:
            hs = []                                               # empty sketch
        elif r < 0.16:
            hs = [h for h in pool if h > M] or ([M + 1] if M < U64 else [])   # empty at the database's scaled
        elif flavour == "big" and i < 2:
            hs = rng.sample(pool, rng.randint(max(1, len(pool) - 8), len(pool)))
        else:
            hs = rng.sample(pool, rng.randint(1, len(pool)))
        s_sc = S_db
        r = rng.random()
        if r < 0.35:
            s_sc = rng.choice([s for s in SCALED_POOL if s <= S_db])
        elif r < 0.40:
            s_sc = S_db * 3                                      # cannot be downsampled to the database: refused
        num = 0
        if rng.random() < 0.03:
            num, s_sc = 5, 0                                     # a num sketch: refused
        k = ksize if rng.random() > 0.03 else 31                 # wrong ksize: refused
        m_i = mol if rng.random() > 0.03 else (mol + 1) % 4      # wrong moltype: refused
        fname = "-"
        if rng.random() < 0.08:                                  # unnamed: identified by filename or md5 prefix
            name = "-"
            fname = rng.choice(["-", f"f{i}.sig"])
        opt = (f" mol={m_i}" if m_i else "") + f" md5={sig_md5(k, m_i, s_sc, num, hs)}"
        lines.append(f"sig {i} {name} {fname} {s_sc} {num} {k} {join_or(',', [str(h) for h in hs])}{opt}")
        sigs.append(name if name != "-" else "")
    lines.append(f"db 0 {ksize} {S_db}{molopt}")
    lines.append("info 0")
    order = list(range(nsig))
    rng.shuffle(order)
    if rng.random() < 0.3:
        order.append(rng.choice(order))                          # the same signature twice: refused
    idents = {}
    for i in order:
        name = sigs[i].replace("~", " ")
        r = rng.random()
        if i in idents:
            ident = idents[i]                                     # same signature, same identifier: refused
        elif r < 0.45:
            ident = "-"
        elif r < 0.70:
            ident = name.split(" ")[0]
        elif r < 0.85:
            ident = name.split(" ")[0].split(".")[0]
        elif r < 0.95:
            ident = f"id{i}"
        else:
            ident = f"id{rng.randint(0, 2)}"                     # may collide: refused
        idents[i] = ident
        r = rng.random()
        if r < 0.15:
            lin = None
        elif r < 0.65:
            lin = rng.choice(lin_pool)                            # identical lineages for several signatures
        else:
            lin = gen_lineage(rng, taxa)
        lines.append(f"ins 0 {i} {tok(ident)} {show_lineage(lin) if lin else '-'}")
    absent = [h for h in (41, M2 + 2, 7 * 10 ** 18) if h not in pool][:1]

    def queries(d, full=True):
        qs = [f"len {d}", f"hv {d}", f"sigs {d}"]
        hs = pool + absent
        if not full or flavour == "big":
            hs = rng.sample(hs, min(len(hs), 5))
        for h in hs:
            qs.append(f"la {d} {h}")
            if full or rng.random() < 0.5:
                qs.append(f"ids {d} {h}")
        if rng.random() < 0.3:
            qs.append(f"la {d} {rng.choice(pool)} {rng.randint(1, 3)}")
        return qs

    lines += queries(0)
    dbs = [0]
    if flavour in ("forms", "down") or rng.random() < 0.3:
        lines.append("json 0 1")
        lines.append("info 1")
        lines += queries(1, full=(flavour == "forms"))
        dbs.append(1)
        if rng.random() < 0.5:
            # further insertions into the JSON-loaded database: fresh identifiers, old and new lineages
            # (a lineage equal to a stored one before / after the padding of `load`), one refused duplicate
            for j in rng.sample(range(nsig), min(nsig, rng.randint(1, 3))):
                r = rng.random()
                lin = None if r < 0.25 else (rng.choice(lin_pool) if r < 0.7 else gen_lineage(rng, taxa))
                if lin and rng.random() < 0.3:
                    lin = tuple(lin) + tuple((k, 0) for k in range(len(lin), NRANKS))
                lines.append(f"ins 1 {j} late{j} {show_lineage(lin) if lin else '-'}")
            if rng.random() < 0.3:
                lines.append(f"ins 1 {rng.randrange(nsig)} - -")  # usually a duplicate of a loaded identifier: refused
            lines += queries(1, full=True)
            if rng.random() < 0.4:
                lines.append("json 1 4")                          # and save / load again
                lines += queries(4, full=False)
    if use_sql:
        lines.append("sql 0 2")
        lines.append("info 2")
        lines += queries(2, full=(flavour == "forms"))
        if rng.random() < 0.3:
            # the SQLite form is read-only: insertion and re-saving are refused and leave every answer as it was
            lines.append(f"ins 2 {rng.randrange(nsig)} fresh{rng.randint(0, 9)} -")
            lines.append(rng.choice(["json 2 8", "sql 2 8"]))
            lines += ["len 2", "hv 2", f"la 2 {rng.choice(pool)}", "recheck"]
        dbs.append(2)
    if flavour in ("summ", "db", "forms"):
        lines += gen_summ(rng, pool + absent, dbs, rng.randint(1, 4))
    if flavour == "down" or rng.random() < 0.3:
        # every form has been queried above (lookup -> downsample -> lookup: memoised thresholds / cached views
        # must not survive); then a SECOND downsample with queries in between, and the storage forms again
        S3 = rng.choice([S2 * 2, S2 * 10, S2 * 7])
        M3 = max_hash(S3)
        extra = [h for h in (M3, M3 + 1, M3 - 1) if 0 <= h <= U64 and h not in pool]
        for d in dbs:
            lines.append(f"hv {d}")
            lines.append(f"la {d} {rng.choice(pool)}")
            lines.append("recheck")
            lines.append(f"down {d} {S2}")
            lines += queries(d, full=True)
        if rng.random() < 0.6:
            for d in dbs:
                lines.append(f"down {d} {S3}")
                lines.append(f"hv {d}")
                lines.append(f"sigs {d}")
                for h in rng.sample(pool, min(len(pool), 4)) + extra[:1]:
                    lines.append(f"la {d} {h}")
                    lines.append(f"ids {d} {h}")
            if rng.random() < 0.5:
                lines.append(f"down {dbs[0]} {S3}")                 # same value again: nothing changes
                lines.append(f"sigs {dbs[0]}")
        if rng.random() < 0.5:
            # a downsampled database written out and read back, in both forms
            lines.append("json 0 5")
            lines += ["info 5", "hv 5", "sigs 5", f"la 5 {rng.choice(pool)}"]
            lines.append("sql 0 6")
            lines += ["info 6", "hv 6", "sigs 6", f"la 6 {rng.choice(pool)}"]
        if rng.random() < 0.3:
            lines.append(f"down 0 {S_db}")                        # cannot go back: refused
        # the same signatures inserted directly into a database at S2 must give the same answers
        lines.append(f"db 3 {ksize} {S2}{molopt}")
        for l in [x for x in lines if x.startswith("ins 0 ")]:
            w = l.split()
            lines.append(f"ins 3 {w[2]} {w[3]} {w[4]}")
        lines += queries(3, full=True)
        if flavour == "down":
            lines += gen_summ(rng, pool, dbs, 2)
    lines.append("recheck")
    return lines


TAXHEADER = ["identifiers", "superkingdom", "phylum", "class", "order", "family", "genus", "species", "strain"]
NULLS = ["", "", "na", "null", "[Blank]", "~", "~na~"]


def gen_index_case(rng):
    """`sourmash lca index` end to end: signatures (one file each), a taxonomy spreadsheet with the quirks
    the reader handles (header names, -C/--start-column, blank and short rows, null names, duplicate
    identifiers), the identifier options, --require-taxonomy / --fail-on-missing-taxonomy, -f, --report;
    then the resulting database is queried"""
    lines = []
    S = rng.choice([1, 10, 100, 1000])
    M = max_hash(S)
    mol = 0 if rng.random() < 0.85 else 1
    ksize = 21 if not mol else 7
    pool = sorted(set(rng.sample(range(1, 40), rng.randint(3, 8)) + [M, M + 1 if M < U64 else M]))
    nsig = rng.randint(1, 6)
    names, sig_hs = [], []
    lead = rng.randrange(nsig)                                    # at most one name starting with a period
    for i in range(nsig):
        name = tok(gen_name(rng, i, allow_leading=(i == lead)))
        fname = "-"
        r = rng.random()
        if r < 0.1:
            name, fname = "-", tok(rng.choice([f"file{i}.sig", f"dir.{i}_f{i}.v2.sig", f"f{i} copy.sig"]))
        elif r < 0.13:
            name = "-"                                            # neither name nor filename: md5 prefix
        hs = rng.sample(pool, rng.randint(0, len(pool)))
        if i and rng.random() < 0.15:
            hs = list(sig_hs[rng.randrange(i)])                   # same content: duplicate md5, skipped
        k = ksize if rng.random() > 0.08 else 31                  # other ksize: not selected
        s_sc, num = (rng.choice([s for s in (1, 10, 100, 1000) if s <= S]), 0)
        r = rng.random()
        if r < 0.04:
            s_sc = S * 10                                         # cannot be downsampled: the command fails
        elif r < 0.07:
            s_sc, num = 0, 5                                      # a num sketch: the command fails
        m_i = mol if rng.random() > 0.05 else 1 - mol
        opt = (f" mol={m_i}" if m_i else "") + f" md5={sig_md5(k, m_i, s_sc, num, hs)}"
        lines.append(f"sig {i} {name} {fname} {s_sc} {num} {k} {join_or(',', [str(h) for h in hs])}{opt}")
        names.append(untok(name) if name != "-" else untok(fname))
        sig_hs.append(hs)
    # options
    opts = [f"k{ksize}", f"s{S}", f"m{mol}"]
    C = rng.choice([2, 2, 2, 3, 4, 1])
    if C != 2:
        opts.append(f"C{C}")
    si = rng.random() < 0.5
    kv = si and rng.random() < 0.5
    nh = rng.random() < 0.2
    for flag, on in (("si", si), ("kv", kv), ("nh", nh), ("rt", rng.random() < 0.25),
                     ("fm", rng.random() < 0.15)):
        if on:
            opts.append(flag)
    # the spreadsheet
    taxa = gen_taxonomy(rng)
    junk = ["j"] * max(C - 2, 0)

    def ident_of(name):
        # the spreadsheet identifier is written independently of how the signature side is normalised:
        # the full name, its first word, the first word without its last `.version`, its prefix before the
        # first period, with trailing blanks, or what the options make of the name
        word = name.split(" ")[0]
        return rng.choice([name, word, word, word.rsplit(".", 1)[0], word.split(".")[0], word + " ", word + "  extra",
                           doc_norm(name, si, kv), doc_norm(name, si, kv)])

    def lineage_cells():
        path = rng.choice(taxa)
        cells = [f"t{n}" for n in path[:rng.randint(1, len(path))]]
        if len(cells) > 2 and rng.random() < 0.3:
            cells[rng.randint(1, len(cells) - 2)] = rng.choice(NULLS)       # a missing rank in the middle
        if rng.random() < 0.3:
            cells += [rng.choice(NULLS) for _ in range(rng.randint(1, 3))]  # nulls at the end
        return cells[:8]

    rows = []
    if not nh:
        hdr = list(TAXHEADER)
        r = rng.random()
        nbad = 0 if r < 0.6 else (rng.randint(1, 2) if r < 0.85 else rng.randint(3, 5))
        for j in rng.sample(range(len(hdr)), nbad):
            hdr[j] = rng.choice(["accession", "Kingdom", "x", hdr[j].upper() + "s"])
        if rng.random() < 0.3:
            hdr = [h.capitalize() for h in hdr]                   # case does not matter
        rows.append([hdr[0]] + junk + hdr[1:])
    for name in names:
        if name and rng.random() < 0.8:
            rows.append([ident_of(name)] + junk + lineage_cells())
    conflict = False
    for _ in range(rng.randint(0, 3)):
        r = rng.random()
        if r < 0.3:
            rows.append([f"nosig{rng.randint(0, 9)}"] + junk + lineage_cells())     # no such signature
        elif r < 0.45:
            rows.append(None)                                      # an empty line
        elif r < 0.6:
            rows.append([rng.choice(["", " "])] + junk + lineage_cells())          # blank identifier
        elif r < 0.8 and len(rows) > 1:
            src = rng.choice([x for x in rows[(0 if nh else 1):] if x] or [rows[-1]])
            if not src:
                continue
            dup = list(src)
            if rng.random() < 0.6:
                dup = dup[:1] + junk + lineage_cells()             # same identifier, maybe another lineage
                conflict = conflict or dup != list(src)
            rows.append(dup)
        else:
            rows.append([f"only{rng.randint(0, 9)}"] + junk)       # identifier without any name
    if len(rows) > 2:
        body = rows[(0 if nh else 1):]
        rng.shuffle(body)
        rows = rows[:(0 if nh else 1)] + body
    # --force: two rows giving one identifier different lineages are tolerated and the FIRST row stands
    # (the rows were shuffled above, so either may come first)
    if rng.random() < (0.6 if conflict else 0.12):
        opts.append("f")
    csvtok = "/".join("!" if r is None else ";".join(tok(c) if c != "" else "" for c in r) for r in rows) or "-"
    order = list(range(nsig))
    rng.shuffle(order)
    lines.append(f"index 0 {','.join(opts)} {','.join(map(str, order))} {csvtok}")
    qs = ["info 0", "len 0", "hv 0", "sigs 0"]
    for h in pool[:6]:
        qs += [f"la 0 {h}", f"ids 0 {h}"]
    lines += qs
    if rng.random() < 0.3:
        lines.append("sql 0 2")
        lines += ["len 2", "sigs 2"] + [f"la 2 {h}" for h in pool[:3]]
    return lines


def gen_cli_case(rng):
    """the command-line layer, in process: `lca summarize` (several --db / --query, --threshold, --scaled, -o,
    --ignore-abundance, abundance-weighted queries), `lca classify` (--majority, --scaled, -o), `lca rankinfo`
    (--minimum-num, --scaled) on databases built here (in-memory form saved as JSON by the adapter, and the
    SQLite form)"""
    lines = []
    S = rng.choice([1, 10, 100, 1000])
    S_b = S if rng.random() < 0.7 else rng.choice([s for s in (1, 10, 100, 1000, 10000) if s >= S])
    Smax = max(S, S_b)
    M = max_hash(Smax)
    pool = sorted(set(rng.sample(range(1, 40), rng.randint(4, 9)) + [M, min(M + 1, U64), max_hash(S)]))
    taxa = gen_taxonomy(rng)
    gaps = rng.random() < 0.12                                    # a missing rank: the CSV writers refuse it
    nsig = rng.randint(2, 6)
    for i in range(nsig):
        name = rng.choice(["s{i}", "GCF_{i}.1~G{i}~sp"]).format(i=i)
        hs = rng.sample(pool, rng.randint(1, len(pool)))
        lines.append(f"sig {i} {name} - {min(S, S_b)} 0 21 {','.join(map(str, hs))} md5={sig_md5(21, 0, min(S, S_b), 0, hs)}")
    lines.append(f"db 0 21 {S}")
    lines.append(f"db 1 21 {S_b}")
    for i in range(nsig):
        lin = gen_lineage(rng, taxa, kind=("gap" if gaps and rng.random() < 0.5 else rng.choice(["full", "partial", "partial"])))
        d = 0 if (i < 2 or rng.random() < 0.6) else 1
        ident = "-" if rng.random() < 0.5 else lines[i].split()[2].replace("~", " ").split(" ")[0]
        lines.append(f"ins {d} {i} {ident} {show_lineage(lin) if rng.random() > 0.1 else '-'}")
    two = rng.random() < 0.5
    if two:
        lines.append(f"ins 1 0 other 0:{rng.randint(1, 9)}")     # the same sketch under another lineage in the second db
    dbsets = [[0]] + ([[0, 1], [1, 0]] if two else [])
    if rng.random() < 0.35:
        lines.append("sql 0 2")
        dbsets.append([2] if not two else [2, 1])
    # queries
    nq = rng.randint(1, 3)
    qs = []
    for j in range(nq):
        r = 20 + j
        hs = rng.sample(pool + [41, 42], rng.randint(1, len(pool)))
        q_sc = rng.choice([s for s in (1, 10, 100, 1000, 10000) if s <= Smax])
        if rng.random() < 0.05:
            q_sc = Smax * 10                                      # cannot be brought to the databases' scaled: the command dies
        k = 21 if rng.random() > 0.1 else 31                      # another ksize: not selected
        ab = " ab=1" if rng.random() < 0.4 else ""
        # (a query with neither name nor filename is listed under the md5 prefix of its DOWNSAMPLED sketch by
        # `lca classify`; md5 is not modelled, so such queries always get a filename here)
        name = rng.choice([f"q{j}", f"query~{j}", "-"])
        fname = "-" if name != "-" else f"q{j}.fa"
        lines.append(f"sig {r} {name} {fname} {q_sc} 0 {k} {','.join(map(str, hs))}{ab} md5={sig_md5(k, 0, q_sc, 0, hs)}")
        qs.append(r)

    def scaled_for(ds):
        # all databases must end at one scaled value (`scaled_vals.pop()` is arbitrary otherwise)
        scs = {0: S, 1: S_b, 2: S}
        vals = {scs[d] for d in ds}
        if len(vals) > 1:
            return max(vals) * rng.choice([1, 1, 10])
        return rng.choice([0, 0, Smax, Smax * 10, 1])

    for _ in range(rng.randint(2, 4)):
        ds = rng.choice(dbsets)
        q = rng.sample(qs, rng.randint(1, len(qs)))
        thr = rng.choice([0, 1, 1, 2, 3, 5])
        c = rng.random()
        dl, ql = ",".join(map(str, ds)), ",".join(map(str, q))
        if c < 0.45:
            lines.append(f"clisumm {dl} {ql} {thr} {scaled_for(ds)} {rng.randint(0, 1)}")
        elif c < 0.8:
            lines.append(f"clicls {dl} {ql} {thr} {scaled_for(ds)} {rng.randint(0, 1)}")
        else:
            lines.append(f"clirank {dl} {scaled_for(ds)} {rng.choice([0, 0, 1, 2, 3])}")
    lines.append(f"clirank 0 0 0")
    return lines


def gen_summ(rng, hs, dbs, n):
    out = []
    for _ in range(n):
        q = sorted(rng.sample(hs, rng.randint(1, len(hs))))
        ds = rng.sample(dbs, rng.randint(1, len(dbs)))
        thr = rng.choice([0, 1, 1, 2, 3, 5])
        if rng.random() < 0.6:
            w = ",".join(f"{h}:{rng.choice([1, 1, 2, 3, 7])}" for h in q)
            out.append(f"summ {thr} {rng.randint(0, 1)} {','.join(map(str, ds))} {w}")
        else:
            out.append(f"cls {thr} {rng.randint(0, 1)} {','.join(map(str, ds))} {','.join(map(str, q))}")
    return out


def gen_fn_case(rng):
    lines = []
    taxa = gen_taxonomy(rng)
    for _ in range(rng.randint(4, 14)):
        r = rng.random()
        if r < 0.45:
            ls = [gen_lineage(rng, taxa) for _ in range(rng.randint(1, 7))]
        elif r < 0.9:
            ls = [gen_free_lineage(rng) for _ in range(rng.randint(1, 6))]
        else:
            ls = []
        lines.append("lca " + join_or("|", [show_lineage(l) if l else "0:0" for l in ls]))
        if rng.random() < 0.4:
            l = gen_lineage(rng, taxa, kind=rng.choice(["full", "partial"]))
            lines.append(f"pop {rng.randint(0, NRANKS - 1)} {show_lineage(l)}")
        if rng.random() < 0.35:
            a = gen_lineage(rng, taxa, kind=rng.choice(["full", "partial", "gap"]))
            b = gen_lineage(rng, taxa, kind=rng.choice(["full", "partial"])) if rng.random() < 0.7 else gen_free_lineage(rng)
            lines.append(f"match {rng.randint(0, NRANKS - 1)} {show_lineage(a)} {show_lineage(b) if b else '-'}")
        if rng.random() < 0.3:
            # tax_utils.RankLineageInfo.find_lca (pairwise, rank by rank) on lineages along taxlist()
            a = gen_lineage(rng, taxa, kind=rng.choice(["full", "partial", "padded"]))
            b = gen_lineage(rng, taxa, kind=rng.choice(["full", "partial", "gap"]))
            lines.append(f"rlca {show_lineage(a)} {show_lineage(b)}")
        if rng.random() < 0.25:
            lines.append("mklin " + ",".join(str(rng.randint(1, 9)) for _ in range(rng.randint(1, 10))))
        if rng.random() < 0.35:
            l = rng.choice([gen_lineage(rng, taxa), gen_free_lineage(rng) or ((0, 1),)])
            lines.append("disp " + (show_lineage(l) if l else "-"))
    # the lineage table of an LCA SQLite database, and `lca compare_csv`
    for _ in range(rng.randint(1, 3)):
        tabs = []
        for _t in range(rng.choice([1, 1, 2])):
            ents = []
            for i in rng.sample(range(6), rng.randint(0, 4)):
                r = rng.random()
                l = gen_lineage(rng, taxa) if r < 0.85 else (gen_free_lineage(rng) or ((0, 1),))
                ents.append(f"id{i}={show_lineage(l)}")
            tabs.append("/".join(ents) or "-")
        lines.append(f"taxdb {rng.choice(['sql', 'sql', 'csv'])} " + " ".join(tabs))
    if rng.random() < 0.6:
        def cells(path):
            return [f"t{n}" for n in path]
        ids = [f"g{i}" for i in range(rng.randint(1, 5))]
        rows1 = [["ID", "status"] + TAXHEADER[1:]]
        rows2 = [list(TAXHEADER)]
        for i in ids:
            p1 = rng.choice(taxa)
            p2 = p1 if rng.random() < 0.3 else rng.choice(taxa)
            if rng.random() < 0.85:
                rows1.append([i, rng.choice(["found", "disagree"])] + cells(p1[:rng.randint(1, len(p1))]))
            if rng.random() < 0.85:
                rows2.append([i] + cells(p2[:rng.randint(1, len(p2))]))
        enc = lambda rows: "/".join(";".join(c.replace(" ", "~") for c in r) for r in rows)
        lines.append(f"clicmp k21{rng.choice(['', ',f'])} {enc(rows1)} {enc(rows2)}")
    return lines


# --------------------------------------------------------------------------
# the property oracle

def canon(l):
    "the taxa a lineage names: (rank, name) pairs with a non-empty name"
    return tuple(p for p in (l or ()) if p[1] != 0)


def parse_lineage(t):
    if t in ("-", "()"):
        return ()
    return tuple((int(p.split(":")[0]), int(p.split(":")[1])) for p in t.split(","))


def spec_lca(lineages):
    """the statement: the path from the root down to the first position at which two of the lineages
    name different taxa; the deepest lineage if no two disagree.  Returns (path, number of different
    taxa named at that position)."""
    L = [canon(l) for l in lineages]
    first = None
    for a in L:
        for b in L:
            for i in range(min(len(a), len(b))):
                if a[i] != b[i]:
                    if first is None or i < first:
                        first = i
                    break
    if first is None:
        deepest = max(L, key=len) if L else ()
        return deepest, 0
    witnesses = [l for l in L if len(l) > first]
    path = witnesses[0][:first]
    return path, len({l[first] for l in witnesses})


class ODb:
    def __init__(self, scaled, ksize):
        self.scaled = scaled
        self.ksize = ksize
        self.entries = []          # dicts: ident, name, hashes (the sketch), lineage
        self.form = "mem"
        self.down = False          # downsample_scaled has been applied
        self.taint = None          # signature of a defect already reported for this database
        self.half = 0              # failed insertions into a JSON-loaded database that still took an index
        self.mol = 0

    def copy(self, form):
        n = ODb(self.scaled, self.ksize)
        n.entries = [dict(e) for e in self.entries]
        n.form, n.down, n.taint = form, self.down, self.taint
        n.half = self.half if form != "sql" else 0
        n.mol = self.mol
        if form == "sql":
            # before 74325d9 the SQLite form only received the sketches that were non-empty (D11)
            n.rows = sum(1 for e in self.entries if self.kept(e))
        return n

    def kept(self, e):
        M = max_hash(self.scaled)
        return [h for h in e["hashes"] if h <= M]

    def holders(self, h):
        return [e for e in self.entries if h in self.kept(e)]


def _name_idents(e):
    "the identifiers the SQLite form can derive from a signature name"
    return (e["name"].split(" ")[0], e["name"].split(".")[0])


def _derivable(e):
    """does the name-based lookup of the SQLite form find this signature's own record?  (the identifier
    is the first word of the name; or the signature has a lineage stored under the version-stripped name)"""
    f, p = _name_idents(e)
    return e["ident"] == f


def oracle(case, impl):
    bad = []
    S = {}      # r -> dict(name, scaled, num, ksize, hashes) as the implementation built them
    D = {}
    for idx, (op, obs) in enumerate(zip(case, impl)):
        w = op.split()
        if not w or obs == "bad-op":
            continue
        o, a = w[0], w[1:]
        ok = obs.startswith("ok")
        val = obs[3:] if ok else None

        def flag(sig, msg, d=None):
            db = D.get(d) if d is not None else None
            if db is not None and db.taint and not sig.startswith("C18:sql-") and sig != db.taint:
                sig = db.taint                                    # same root cause, already reported
            bad.append((idx, sig, f"`{op}` -> `{obs[:160]}`: {msg}"))

        try:
            if obs.startswith(("views-disagree", "twice-differs", "stale")):
                kind = obs.split()[0]
                flag("C18:" + {"views-disagree": "views-disagree", "twice-differs": "read-twice-differs",
                               "stale": "history-stale"}[kind],
                     "two ways of reading the same database disagree / an answer is not reproducible / an object handed "
                     "out earlier changed: " + obs[:200])
                continue
            if o == "sig":
                if ok:
                    opts = dict(t.split("=", 1) for t in a[7:])
                    S[int(a[0])] = dict(name=untok(a[1]), filename=untok(a[2]), scaled=int(a[3]),
                                        num=int(a[4]), ksize=int(a[5]), mol=int(opts.get("mol", 0)),
                                        md5=opts.get("md5", ""),
                                        hashes=[] if val == "-" else [int(x) for x in val.split(",")])
                else:
                    S.pop(int(a[0]), None)
            elif o == "db":
                D[int(a[0])] = ODb(int(a[2]), int(a[1]))
                D[int(a[0])].mol = int(dict(t.split("=", 1) for t in a[3:]).get("mol", 0))
            elif o == "info":
                d = int(a[0])
                if d in D:
                    exp = f"ok ksize={D[d].ksize} scaled={D[d].scaled} mol={D[d].mol}"
                    if obs != exp:
                        flag("C18:db-parameters", f"expected {exp[3:]} (ksize and moltype must survive every storage form)", d)
            elif o == "ins":
                d, r = int(a[0]), int(a[1])
                if d not in D or r not in S:
                    continue
                db, sg = D[d], S[r]
                # default identifier: the name, else the filename, else the first 8 characters of the md5sum
                dflt = sg["name"] or sg["filename"] or sg["md5"][:8]
                ident = dflt if a[2] == "-" else untok(a[2])
                valid = (sg["ksize"] == db.ksize and sg["mol"] == db.mol and not sg["num"] and 0 < sg["scaled"] <= db.scaled
                         and all(x["ident"] != ident for x in db.entries))
                if not ok and valid:
                    if db.form == "json" and obs in ("err KeyError", "err AttributeError"):
                        db.half += 1
                        flag("C18:insert-after-json-load-fails", "the same insertion succeeds on the database before save/load; here it "
                             "raises after having allocated the index (len() counts a signature that is not there)", d)
                    elif db.form == "sql" and obs == "err NotImplementedError":
                        pass                                       # the SQLite form is documented read-only
                    else:
                        flag("C18:insert-refused", "a compatible signature with a fresh identifier was refused", d)
                if ok:
                    e = dict(ident=ident, name=sg["name"], hashes=list(sg["hashes"]), lineage=parse_lineage(a[3]) or None)
                    db.entries.append(e)
                    if int(val) != len(db.kept(e)):
                        flag("C18:insert-count", f"insert reports {val} hashes, the sketch has {len(db.kept(e))} at scaled {db.scaled}", d)
                    if any(x["ident"] == ident for x in db.entries[:-1]):
                        flag("C18:duplicate-ident-accepted", f"identifier {ident!r} inserted twice", d)
                    if sg["ksize"] != db.ksize or sg["mol"] != db.mol or sg["num"] or sg["scaled"] > db.scaled:
                        flag("C18:incompatible-accepted", "a sketch that cannot be brought to the database's ksize/scaled was accepted", d)
            elif o == "index":
                D.pop(int(a[0]), None)
                if ok:
                    db = _index_oracle(a, S)
                    if db is not None:
                        D[int(a[0])] = db
                elif obs == "err KeyError":
                    flag("C18:index-keyerror-second-signature-under-consumed-row",
                         "`sourmash lca index` dies with an uncaught KeyError at record_remnants.remove(ident): a second "
                         "signature reached a spreadsheet row that an earlier one already consumed (both identifiers "
                         "normalise to the empty string, which insert() replaces by str(sig), so no duplicate is refused); "
                         "neither a database nor one of the command's own refusals results")
            elif o == "json" or o == "sql":
                d, e = int(a[0]), int(a[1])
                if d in D and ok:
                    D[e] = D[d].copy("sql" if o == "sql" else (o if D[d].form == "mem" else D[d].form))
                elif d in D and o == "sql" and D[d].form == "mem":
                    if any(D[d].kept(x) for x in D[d].entries):
                        flag("C18:sql-conversion-refused", "conversion to the SQLite form failed", d)
            elif o == "down":
                d = int(a[0])
                if d in D and ok:
                    if int(a[1]) != D[d].scaled:
                        D[d].down = True
                    D[d].scaled = int(a[1])
                    if int(val) != int(a[1]):
                        flag("C18:downsample-scaled-attr", f"scaled reported {val}", d)
                elif d in D and int(a[1]) >= D[d].scaled:
                    flag("C18:downsample-refused", f"downsample_scaled({a[1]}) refused on a database at {D[d].scaled}", d)
            elif o in ("len", "la", "ids", "hv", "sigs"):
                d = int(a[0])
                if d not in D:
                    continue
                db = D[d]
                _check_query(db, d, o, a, ok, val, obs, flag)
            elif o == "lca":
                ls = [] if a[0] == "-" else [parse_lineage(t) for t in a[0].split("|")]
                if obs.startswith("twins-disagree"):
                    flag("C18:find-lca-implementations-disagree", "lca_utils.find_lca and tax_utils.LineageTree.find_lca differ")
                elif ls:
                    p, r = spec_lca(ls)
                    exp = f"ok {show_lineage(p)} {r}"
                    if obs != exp:
                        flag("C18:find-lca", f"the statement gives {exp[3:]}")
                elif ok:
                    flag("C18:find-lca-empty", "an empty set of lineages has no LCA")
            elif o == "clicls" and obs == "err TypeError":
                flag("C18:classify-scaled-float-typeerror",
                     "`lca classify --scaled S` dies with TypeError as soon as a database has to be downsampled: --scaled is "
                     "parsed as a float and (unlike summarize / rankinfo) not converted to int before "
                     "downsample_scaled builds MinHash(scaled=S)")
            elif o == "taxdb" and ok:
                merged = {}
                for t in a[1:]:
                    if t != "-":
                        for e in t.split("/"):
                            i, l = e.split("=")
                            merged[i] = parse_lineage(l)      # a later table shadows an earlier one
                if a[0] == "sql" and all([r for r, _ in l] == list(range(len(l))) for l in merged.values()):
                    # positional lineages: every name comes back at its rank, trailing empty names dropped
                    def strip(l):
                        l = list(l)
                        while l and l[-1][1] == 0:
                            l.pop()
                        return tuple(l)
                    exp_rows = sorted(f"{i}={show_lineage(strip(l))}" for i, l in merged.items())
                    exp_ranks = sorted({r for l in merged.values() for r, n in l if n != 0})
                    m = dict(kv.split("=", 1) for kv in val.split(" ")[:2])
                    got_ranks = [] if m["ranks"] == "-" else [int(x) for x in m["ranks"].split(",")]
                    rest = val.split(" ", 2)[2] if len(val.split(" ")) > 2 else "-"
                    got_rows = [] if rest == "-" else sorted(rest.split("|"))
                    if got_rows != exp_rows or int(m["n"]) != len(merged):
                        flag("C18:sqlite-lineage-table-roundtrip", f"expected {exp_rows[:4]}")
                    elif got_ranks != exp_ranks:
                        swap = {2: 3, 3: 2}
                        if sorted(swap.get(r, r) for r in got_ranks) == exp_ranks:
                            flag("C18:sqlite-lineage-available-ranks-class-order-swapped",
                                 f"names are stored at ranks {exp_ranks}; available_ranks reports {got_ranks} "
                                 "(LineageDB_Sqlite.columns lists order_ before class, the ranks list class before order)")
                        else:
                            flag("C18:sqlite-lineage-available-ranks", f"expected {exp_ranks}")
            elif o == "pop":
                lin = parse_lineage(a[1])
                r = int(a[0])
                exp = "ok " + show_lineage(lin[:r + 1])
                if obs != exp:
                    flag("C18:pop-to-rank", f"expected {exp[3:]}")
            elif o in ("summ", "cls"):
                _check_summ(D, o, a, ok, val, obs, flag)
        except (ValueError, IndexError, KeyError) as ex:
            bad.append((idx, "C18:oracle-cannot-parse", f"`{op}` -> `{obs[:100]}`: {type(ex).__name__} {ex}"))
    return bad


def _index_oracle(a, S):
    """what `sourmash lca index` should have built, from its documentation: every selected, non-duplicate signature,
    under its (normalised) name, with the lineage of the spreadsheet row whose (normalised) identifier is the same.
    Returns None when the outcome is not determined by this simple reading (the command's own refusals are
    compared with the model only)."""
    ws = a[1].split(",")
    num = lambda pre, dflt: next((int(x[len(pre):]) for x in ws if x.startswith(pre) and x[len(pre):].isdigit()), dflt)
    ksize, scaled, mol, C = num("k", 21), num("s", 1), num("m", 0), num("C", 2)
    si, kv, nh, force, rt = "si" in ws, "kv" in ws, "nh" in ws, "f" in ws, "rt" in ws
    rows = [] if a[3] == "-" else [[] if r == "!" else [untok(c) if c else "" for c in r.split(";")] for r in a[3].split("/")]
    if not nh:
        rows = rows[1:]
    asg = {}
    for row in rows:
        if not row or not row[0].strip():
            continue
        names = [(1000 if c.strip() in ("", "na", "null", "[Blank]") else int(c[1:])) for c in row[C - 1:C - 1 + NRANKS]]
        while names and names[-1] == 1000:
            names.pop()
        if not names:
            continue
        key = doc_norm(row[0], si, kv)
        lin = tuple(enumerate(names))
        if key in asg and asg[key] != lin and not force:
            return None
        asg.setdefault(key, lin)
    db = ODb(scaled, ksize)
    db.mol = mol
    db.form = "json"
    seen = set()
    for r in ([] if a[2] == "-" else [int(x) for x in a[2].split(",")]):
        sg = S.get(r)
        if sg is None:
            return None
        if sg["ksize"] != ksize or sg["mol"] != mol:
            continue
        if sg["md5"] in seen:
            continue
        seen.add(sg["md5"])
        raw = sg["name"] or sg["filename"]
        ident = doc_norm(raw, si, kv)
        lin = asg.get(ident)
        if lin is None and rt:
            continue
        # an empty identifier falls back to insert()'s default: name, filename, md5 prefix
        db.entries.append(dict(ident=ident or sg["name"] or sg["filename"] or sg["md5"][:8], name=sg["name"],
                               hashes=list(sg["hashes"]), lineage=lin))
    return db


def _check_query(db, d, o, a, ok, val, obs, flag):
    M = max_hash(db.scaled)
    if o == "len":
        if not ok or int(val) != len(db.entries) + db.half:
            n_nonempty = getattr(db, "rows", None)
            if db.form == "sql" and ok and int(val) == n_nonempty:
                flag("C18:empty-sketch-not-reconstructed", f"{len(db.entries)} signatures were inserted; the SQLite form holds only "
                     f"the {n_nonempty} that were non-empty at the database's scaled", d)
            else:
                flag("C18:len", f"{len(db.entries)} signatures were inserted", d)
        return
    if o == "la":
        h = int(a[1])
        mn = int(a[2]) if len(a) > 2 else 0
        hold = db.holders(h)
        exp = sorted(show_lineage(canon(e["lineage"])) for e in hold if e["lineage"])
        if mn and len(hold) < mn:
            exp = []
        got = None
        if ok:
            got = [] if val == "-" else sorted(show_lineage(canon(parse_lineage(t))) for t in val.split("|"))
        if got != exp:
            if db.down and db.form != "sql" and h == M and got == [] and exp:
                db.taint = "C18:downsample-drops-hash-at-threshold"
                flag(db.taint, f"hash {h} equals max_hash({db.scaled}); it belongs to the sketches at scaled {db.scaled} "
                     f"(lineages {exp}) but downsample_scaled dropped it", d)
            elif db.form == "sql" and db.down and h > M and exp == []:
                flag("C18:sql-downsample-keeps-hashes-above-threshold", f"hash {h} > max_hash({db.scaled}) = {M} is still reported "
                     f"after downsample_scaled({db.scaled}) on the SQLite form", d)
            elif db.form == "sql" and ok and _sql_explained(db, hold, got, mn):
                flag("C18:sql-lineage-lost-ident-not-derivable-from-name",
                     f"expected {exp}: the SQLite form looks lineages up by the first word of the signature name (or its "
                     f"prefix before the first '.'), not by the identifier the signature was inserted with", d)
            else:
                flag(f"C18:assignments-{db.form}" + ("-after-downsample" if db.down else ""), f"expected {exp}", d)
        elif ok and db.form == "mem" and not db.down:
            raw = [] if val == "-" else sorted(val.split("|"))
            expraw = sorted(show_lineage(e["lineage"]) for e in hold if e["lineage"])
            if mn and len(hold) < mn:
                expraw = []
            if raw != expraw:
                flag("C18:assignments-mem-raw", f"expected exactly {expraw}", d)
        return
    if o == "ids":
        h = int(a[1])
        hold = db.holders(h)
        exp = sorted(tok(e["ident"]) for e in hold)
        got = None
        if ok:
            got = [] if val == "-" else sorted(val.split(","))
        if got != exp:
            if db.form == "sql" and not ok and obs == "err KeyError" and (not exp or (db.down and h > M)):
                flag("C18:sql-identifiers-keyerror-absent-hash", "no signature holds this hash: the in-memory form answers "
                     "with an empty list, the SQLite form raises KeyError", d)
            elif db.down and db.form != "sql" and h == M and got == [] and exp:
                db.taint = "C18:downsample-drops-hash-at-threshold"
                flag(db.taint, f"hash {h} equals max_hash({db.scaled}) and is held by {exp}", d)
            elif db.form == "sql" and db.down and h > M and exp == []:
                flag("C18:sql-downsample-keeps-hashes-above-threshold", f"hash {h} > max_hash({db.scaled}) still has identifiers", d)
            elif db.form == "sql" and ok and len(got) == len(hold) and \
                    all(g in ({tok(i) for e in hold for i in _name_idents(e) + (e["ident"],)}
                              | ({"set()"} if any(e["name"] == "" for e in hold) else set())) for g in got):
                flag("C18:sql-ident-differs", f"expected {exp}: the SQLite form re-derives identifiers from signature names "
                     "(first word, or the prefix before the first '.' when no lineage is stored under the first word)", d)
            else:
                flag(f"C18:identifiers-{db.form}" + ("-after-downsample" if db.down else ""), f"expected {exp}", d)
        return
    if o == "hv":
        exp = sorted({h for e in db.entries for h in db.kept(e)})
        got = None
        if ok:
            got = [] if val == "-" else [int(x) for x in val.split(",")]
        if db.form == "sql" and ok and got != exp:
            if any(x < 0 for x in got):
                flag("C18:sql-hashvals-signed", "hash values >= 2^63 are reported as negative numbers by the SQLite form", d)
                got = sorted(x % 2 ** 64 for x in got)
            if db.down and got != exp and [h for h in got if h <= M] == exp:
                flag("C18:sql-downsample-keeps-hashes-above-threshold", f"hashes above max_hash({db.scaled}) still listed", d)
                got = exp
        if got != exp:
            if db.down and db.form != "sql" and ok and sorted(got + [M]) == exp:
                db.taint = "C18:downsample-drops-hash-at-threshold"
                flag(db.taint, f"hash {M} = max_hash({db.scaled}) was dropped by downsample_scaled", d)
            else:
                flag(f"C18:hashvals-{db.form}" + ("-after-downsample" if db.down else ""), f"expected {exp[:12]}", d)
        return
    if o == "sigs":
        exp = sorted(tok(e["name"]) + "=" + join_or(",", [str(h) for h in sorted(db.kept(e))]) for e in db.entries)
        got = None
        if ok:
            got = [] if val == "-" else sorted(val.split("|"))
        if ok and val == join_or("|", exp):
            return                                  # (names may contain `|`: compare before splitting)
        if got != exp:
            nonempty = [x for x in exp if not x.endswith("=-")]
            if got == nonempty:
                flag("C18:empty-sketch-not-reconstructed", f"{len(exp) - len(nonempty)} inserted sketch(es) that are empty at "
                     f"scaled {db.scaled} are counted by len() but never yielded by signatures()", d)
            elif db.down and db.form != "sql" and ok and _sigs_minus(exp, M) == got:
                db.taint = "C18:downsample-drops-hash-at-threshold"
                flag(db.taint, f"reconstructed sketches lack hash {M} = max_hash({db.scaled})", d)
            elif db.form == "sql" and db.down and ok:
                flag("C18:sql-downsample-keeps-hashes-above-threshold", "sketches of the SQLite form are not downsampled", d)
            else:
                flag(f"C18:reconstruct-{db.form}" + ("-after-downsample" if db.down else ""), f"expected {exp[:6]}", d)


def _sigs_minus(exp, M):
    out = []
    for x in exp:
        name, hs = x.rsplit("=", 1)
        hs = [h for h in ([] if hs == "-" else hs.split(",")) if int(h) != M]
        if hs:
            out.append(name + "=" + ",".join(hs))
    return sorted(out)


def _sql_explained(db, hold, got, mn):
    """is the answer what a lookup by *name* (instead of by the identifier given at insertion) produces?
    every reported lineage is stored under an identifier derivable from a holder's name, no holder
    answers twice, and at least one holder's own identifier is not the first word of its name"""
    if not any(not _derivable(e) for e in hold) or len(got) > len(hold):
        return False
    reach = set()
    for h in hold:
        for e in db.entries:
            if e["lineage"] and e["ident"] in _name_idents(h):
                reach.add(show_lineage(canon(e["lineage"])))
    return all(g in reach for g in got)


def _check_summ(D, o, a, ok, val, obs, flag):
    thr = int(a[0])
    flagb = bool(int(a[1]))
    ds = [int(x) for x in a[2].split(",")]
    if any(d not in D for d in ds):
        return
    dbs = [D[d] for d in ds]
    d0 = next((d for d in ds if D[d].taint), ds[0])
    # defects of a form that are reported on the queries taint what is summarised from it as well
    soft = any(db.taint or (db.form == "sql" and (db.down or any(not _derivable(e) for e in db.entries))) for db in dbs)
    if o == "summ":
        hc = [] if a[3] == "-" else [(int(p.split(":")[0]), int(p.split(":")[1])) for p in a[3].split(",")]
    else:
        hc = [(int(h), 1) for h in ([] if a[3] == "-" else a[3].split(","))]
    counts = {}
    order = []
    for h, c in hc:
        lins = set()
        for db in dbs:
            for e in db.holders(h):
                if e["lineage"]:
                    lins.add(canon(e["lineage"]))
        if not lins:
            continue
        p, _ = spec_lca(list(lins))
        wgt = 1 if (o == "cls" or flagb) else c
        if p not in counts:
            order.append(p)
        counts[p] = counts.get(p, 0) + wgt
    if o == "summ":
        agg = {}
        for p, c in counts.items():
            if c < thr:
                continue
            if not p:
                agg[p] = agg.get(p, 0) + c
            for i in range(1, len(p) + 1):           # the LCA and every ancestor, once each
                agg[p[:i]] = agg.get(p[:i], 0) + c
        exp = "ok " + join_or("|", sorted(f"{show_lineage(k)}={v}" for k, v in agg.items()))
        if obs != exp and not soft:
            flag("C18:summarize-counts", f"expected {exp[3:][:200]}", d0)
        return
    # classify
    if flagb:
        top = max(counts.values()) if counts else 0
        cands = [p for p in order if counts[p] == top and top > thr]
        exps = set()
        for p in cands:
            exps.add("ok nomatch ()" if not p else f"ok found {show_lineage(p)}")
        if not cands:
            exps.add("ok nomatch ()")
    else:
        keep = [p for p in order if counts[p] >= thr and p]
        if not keep:
            exps = {"ok nomatch ()"}
        else:
            p, r = spec_lca(keep)
            exps = {f"ok {'found' if r == 0 else 'disagree'} {show_lineage(p)}"}
    if obs not in exps and not soft:
        flag("C18:classify", f"expected {sorted(exps)}", d0)


def nontrivial(case, impl):
    """>= 2 accepted insertions and >= 3 non-empty lineage answers; or (fn flavour) >= 3 find_lca answers"""
    ins = sum(1 for c, o in zip(case, impl) if c.startswith("ins ") and o.startswith("ok"))
    la = sum(1 for c, o in zip(case, impl) if c.startswith("la ") and o.startswith("ok ") and o != "ok -")
    fn = sum(1 for c, o in zip(case, impl) if c.startswith("lca ") and o.startswith("ok "))
    ix = any(c.startswith("index ") and o.startswith("ok") for c, o in zip(case, impl))
    cli = sum(1 for c, o in zip(case, impl) if c.startswith("cli") and o.startswith("ok ") and o != "ok -")
    return (ins >= 2 and la >= 3) or fn >= 3 or (ix and la >= 1) or cli >= 2
