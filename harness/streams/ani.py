"""The `ani` stream (C17): ANI point estimates, their decision logic and their confidence intervals.

Ops (floats = decimal value of the IEEE-754 bit pattern, N = None), see lean/SmVerif/Model/DriverAni.lean:
    c2d / c2dci / j2d     the closed forms of distance_utils on attainable ratios a/b
    res ani|jac|ci        the result classes on arbitrary (also illegal) field values -- compared EXACTLY
    mh cont|max|avg|jac   the MinHash wrappers on real sketches of given sizes / overlap
    cmpani                the compare-level ANI entry points (compare_all_pairs serial and n_jobs=2, compare_serial, compare_serial_containment /
                          _max_containment / _avg_containment with return_ani=True) on the mh flavour's pairs: withheld -> exactly 0.0
    cls / clsnum          FracMinHashComparison / NumMinHashComparison / PrefetchResult / GatherResult / SearchResult (sketchcomparison.py,
                          search.py) on the same kind of sketch pairs as `mh`; every ANI field, flag and CSV cell
    sia                   MinHash.size_is_accurate: which scipy.stats.binom calls, with which arguments, probability, answer
    pyvar                 distance_utils.var_n_mutated
    nat ...               the NATIVE twin src/core/src/ani_utils.rs, executed by rust-harness (`smharness ani`) next to the
                          Python twin on the same inputs (the adapter forwards these ops to the harness binary)

Inputs only the real code can produce (brentq's interval, size_is_accurate(), contained_by()) are
written as `?` by the generator and filled in by a helper process running the adapter.

`same(a, b)`: lines starting with `exact` must be identical; otherwise every `key=value` whose value is a
bit pattern may differ by 1e-12 RELATIVE (model = Lean runtime `Float` with the C library's pow/exp/log,
implementation = CPython with the same library; agreement of the two roundings is observed, NOT proved).
"""
import atexit
import decimal
import os
import struct
import subprocess
import sys

sys.path.insert(0, os.path.dirname(os.path.dirname(os.path.abspath(__file__))))
import common  # noqa: E402

MODULE = "ani"
ADAPTER = "ani_impl.py"
REL_TOL = 1e-12
CI_TOL = 1e-3        # native vs Python confidence bounds (absolute; measured worst case 2e-4, typical < 1e-8)


def bits(x):
    return str(struct.unpack("<Q", struct.pack("<d", float(x)))[0])


def fl(s):
    return struct.unpack("<d", struct.pack("<Q", int(s)))[0]


ONE = bits(1.0)
ZERO = bits(0.0)

# --------------------------------------------------------------------------
# tolerance comparison


def _kv(line):
    out = []
    for t in line.split():
        if "=" in t:
            k, v = t.split("=", 1)
            out.append((k, v))
        else:
            out.append((t, None))
    return out


def _close(a, b):
    if a == b:
        return True
    if not (a.isdigit() and b.isdigit()):
        return False
    x, y = fl(a), fl(b)
    if x != x or y != y:
        return x != x and y != y        # NaN: sign / payload bits are not significant (Rust and C differ in the sign of 0 * inf)
    return abs(x - y) <= REL_TOL * max(abs(x), abs(y))


def same(a, b):
    if a == b:
        return True
    if a.startswith("exact") or b.startswith("exact"):
        return False
    ka, kb = _kv(a), _kv(b)
    if len(ka) != len(kb):
        return False
    for (k1, v1), (k2, v2) in zip(ka, kb):
        if k1 != k2 or (v1 is None) != (v2 is None):
            return False
        if v1 is None:
            continue
        if k1 in ("px", "jx", "acc", "calls", "n"):
            if v1 != v2:
                return False
        elif not all(_close(x, y) for x, y in zip(v1.split(","), v2.split(","))) or v1.count(",") != v2.count(","):
            return False
    return True


# --------------------------------------------------------------------------
# helper process (the adapter) for the `?` inputs

_helper = None


def _get_helper():
    global _helper
    if _helper is None or _helper.poll() is not None:
        pkg = os.path.join(common.BUILD, "pkg")
        env = dict(os.environ, PYTHONPATH=pkg + os.pathsep + os.path.join(common.VERIF, "harness"), PYTHONHASHSEED="0")
        _helper = subprocess.Popen([common.PY, os.path.join(common.VERIF, "harness", "adapters", ADAPTER)],
                                   stdin=subprocess.PIPE, stdout=subprocess.PIPE, stderr=subprocess.DEVNULL,
                                   text=True, env=env, bufsize=1)
        atexit.register(_stop_helper)
    return _helper


def _stop_helper():
    global _helper
    if _helper is not None:
        try:
            _helper.stdin.close()
            _helper.wait(timeout=10)
        except Exception:       # noqa: BLE001
            _helper.kill()
        _helper = None


def _ask(line):
    h = _get_helper()
    h.stdin.write(line + "\n")
    h.stdin.flush()
    return h.stdout.readline().rstrip("\n")


def fill(lines):
    out = []
    for l in lines:
        w = l.split()
        if "?" not in w:
            out.append(l)
            continue
        r = dict(t.split("=", 1) for t in _ask(l).split() if "=" in t)
        if w[0] == "c2dci":
            if "lo" not in r:
                w[7], w[8] = "N", "N"          # the call raised: nothing to paste
            else:
                w[7], w[8] = r["lo"], r["hi"]
        elif w[0] == "mh":
            if "acc" not in r:
                raise common.ToolFailure("ani helper: " + l)
            w[7], w[8] = r["acc"][0], r["acc"][1]
            w[9], w[10] = r["v"].split(",")
        elif w[0] == "cmpani":
            if "ref.acc" not in r:
                raise common.ToolFailure("ani helper: " + l)
            w[7:] = list(r["ref.acc"]) + [r["ref.c12"], r["ref.c21"], r["ref.mc"], r["ref.j"]]
        elif w[0] == "cls":
            raw = dict(t.split("=", 1) for t in _ask(l).split() if "=" in t)
            if "ref" in raw:            # downsampling to the requested comparison scaled is refused: nothing to paste
                toks = ["0", "0"] + ["N", "N", "N", "0"] * 3 + ["N", "0", "0"]
            else:
                j = raw["ref.j"].split(",") if not raw["ref.j"].startswith("E") else [raw["ref.j"], "0", "0"]
                toks = list(raw["ref.acc"]) + raw["ref.c12"].split(",") + raw["ref.c21"].split(",") + raw["ref.mc"].split(",") + j
            w[12:] = toks
        elif w[0] == "sia":
            if "vals" in r:
                w[5], w[6], w[7] = r["vals"].split(",")
            else:
                w[5], w[6], w[7] = "0", "0", "N"     # the call raised (TypeError / ValueError): nothing to paste
        elif w[0] == "nat" and w[1] in ("ci", "inc-ci"):
            w[7], w[8] = r.get("alo", "N"), r.get("ahi", "N")
        elif w[0] == "nat" and w[1] == "gstats":
            if "py" not in r:
                raise common.ToolFailure("ani helper (native harness missing?): " + l)
            w[10:] = [r["qlo"], r["qhi"], r["mlo"], r["mhi"]] + r["py"].split(",")
        elif w[0] == "nat" and w[1] == "probit":
            if "z" not in r:
                raise common.ToolFailure("ani helper (native harness missing?): " + l)
            w[3] = r["z"]
        out.append(" ".join(w))
    return out


# --------------------------------------------------------------------------
# generator

KS = [1, 2, 3, 4, 7, 10, 15, 21, 31, 32, 51, 64, 100, 101, 120]
SCALEDS = [1, 2, 10, 100, 1000, 10000, 1000000]
ONE_MINUS = bits(1.0 - 2.0 ** -53)


def ratio(rng):
    """an attainable containment / Jaccard: a/b with b <= 5000 (bit pattern of the Python quotient), biased to the ends"""
    r = rng.random()
    b = rng.choice([1, 2, 3, 10, rng.randint(1, 60), rng.randint(1, 5000), 5000, 4999])
    if r < 0.08:
        a = 0
    elif r < 0.16:
        a = b
    elif r < 0.3:
        a = 1
    elif r < 0.45:
        a = max(b - 1, 0)
    else:
        a = rng.randint(0, b)
    return a, b


def gen_closed(rng):
    lines = []
    for _ in range(rng.randint(2, 4)):            # groups sharing k: monotonicity is checked inside a group
        k = rng.choice(KS + [rng.randint(1, 130)])
        scaled = rng.choice(SCALEDS)
        kind = rng.choice(["c2d", "c2d", "j2d"])
        pthr = rng.choice([bits(1e-3), bits(1e-3), "N", bits(0.0), bits(1.0)])
        ethr = rng.choice([bits(1e-4), bits(1e-4), "N", bits(0.0)])
        for _ in range(rng.randint(3, 9)):
            a, b = ratio(rng)
            x = bits(a / b)
            r = rng.random()
            if r < 0.05:
                x = ONE_MINUS                    # one ulp below 1
            elif r < 0.10:
                x = bits(1 / rng.choice([10 ** 10, 2 ** 33, 10 ** 9 + 7]))      # ~1e-10
            elif r < 0.13:
                x = bits((10 ** 7 - 1) / 10 ** 7)   # two huge, nearly identical sketches
            elif r < 0.15:
                x = bits(1.0 + 2.0 ** -52)       # not a ratio of sizes: must be refused, not answered
            n = rng.choice([b * scaled, b * scaled, max(1, a) * scaled, rng.randint(1, 200), 10 ** 4, 10 ** 7])
            if kind == "c2d":
                lines.append(f"c2d {x} {k} {scaled} {n} {pthr}")
            else:
                lines.append(f"j2d {x} {k} {scaled} {n} {pthr} {ethr}")
    return lines


SPECIAL = [0.0, -0.0, 1.0, 1.0 + 2.0 ** -52, 1.0 - 2.0 ** -53, -5e-324, 5e-324, 0.5, 1e-3, 1e-4, 2.0, -1.0,
           float("nan"), float("inf"), float("-inf"), 0.999, 1e-3 + 2e-19, 1e-4 - 1e-20]


def val(rng):
    return bits(rng.choice(SPECIAL) if rng.random() < 0.7 else rng.random())


def opt(rng, v, p_none=0.25):
    return "N" if rng.random() < p_none else v


def gen_res(rng):
    lines = []
    for _ in range(rng.randint(8, 20)):
        kind = rng.choice(["ani", "jac", "ci", "ci"])
        d = bits(rng.random()) if rng.random() < 0.5 else val(rng)
        head = f"res {kind} {d} {val(rng)} {opt(rng, rng.choice([bits(1e-3), val(rng)]))} {rng.randint(0, 1)}"
        if kind == "ani":
            lines.append(head)
        elif kind == "jac":
            lines.append(f"{head} {opt(rng, val(rng), 0.1)} {opt(rng, rng.choice([bits(1e-4), val(rng)]))}")
        else:
            lo, hi = sorted([rng.random(), rng.random()])
            if rng.random() < 0.5:
                lines.append(f"{head} {opt(rng, bits(lo), 0.15)} {opt(rng, bits(hi), 0.15)}")
            else:
                lines.append(f"{head} {opt(rng, val(rng), 0.15)} {opt(rng, val(rng), 0.15)}")
    return lines


def gen_ci(rng):
    lines = []
    for _ in range(rng.randint(3, 7)):
        k = rng.choice([7, 21, 31, 51, rng.randint(1, 120)])
        scaled = rng.choice([1, 10, 100, 1000])
        a, b = ratio(rng)
        n = rng.choice([b * scaled, b * scaled, rng.randint(1, 50), 10 ** 4, 10 ** 6])
        conf = rng.choice([0.95, 0.95, 0.5, 0.9, 0.99, 0.999, rng.uniform(0.01, 0.999)])
        lines.append(f"c2dci {bits(a / b)} {k} {scaled} {n} {bits(1e-3)} {bits(conf)} ? ?")
    return lines


def gen_mh(rng):
    lines = []
    for _ in range(rng.randint(3, 6)):
        kind = rng.choice(["cont", "max", "avg", "jac"])
        scaled = rng.choice([1, 1, 2, 10, 100, 1000])
        k = rng.choice([7, 21, 31, 51, rng.randint(1, 120)])
        la = rng.choice([1, 2, 5, rng.randint(1, 50), rng.randint(50, 400), rng.randint(400, 3000)])
        lb = rng.choice([la, 1, rng.randint(1, 50), rng.randint(50, 400), rng.randint(400, 3000)])
        if scaled > 1 and rng.random() < 0.4:
            # both sizes around the point where size_is_accurate() flips (it is NOT monotone there: at
            # scaled=10 85..88 hashes pass, 89 fails, 90+ pass), so that every combination of the two
            # answers occurs with either sketch the larger one (seeded C17a tested only the smaller sketch)
            thr = {2: 47, 10: 88, 100: 92, 1000: 95}[scaled]
            la, lb = rng.randint(thr - 8, thr + 8), rng.randint(thr - 8, thr + 8)
        r = rng.random()
        if r < 0.2:
            common_ = 0
        elif r < 0.45:
            common_ = min(la, lb)
        else:
            common_ = rng.randint(0, min(la, lb))
        lines.append(f"mh {kind} {la} {lb} {common_} {scaled} {k} ? ? ? ?")
        if rng.random() < 0.2:
            # the same pair through the compare-level ANI entry points (serial, n_jobs=2, containment / max / avg builders)
            lines.append(f"cmpani {la} {lb} {common_} {scaled} {k} {int(rng.random() < 0.5)} ? ? ? ? ? ?")
    return lines


def gen_sia(rng):
    """MinHash.size_is_accurate: sizes around the flip points, every parameter boundary, both branches of
    set_size_exact_prob (len * (1 - relative_error) integral or not), num sketches, illegal parameters"""
    lines = []
    for _ in range(rng.randint(4, 8)):
        scaled = rng.choice([1, 2, 10, 100, 1000, 1000, 0])
        thr = {0: 10, 1: 5, 2: 47, 10: 88, 100: 92, 1000: 95}[scaled]
        length = rng.choice([1, 2, rng.randint(1, 30), rng.randint(max(1, thr - 10), thr + 10), rng.randint(100, 2000)])
        rel = rng.choice([0.2, 0.2, 0.2, 0.05, 0.5, 0.25, 0.0, 1.0, 0.1, rng.random(), 1.0 + 2.0 ** -52, -0.1])
        conf = rng.choice([0.95, 0.95, 0.95, 0.5, 0.9, 0.99, 0.0, 1.0, rng.random(), 1.5, -5e-324])
        lines.append(f"sia {length} {scaled} {bits(rel)} {bits(conf)} ? ? ?")
    return lines


def gen_native(rng):
    """the native twin next to the Python one, on the same inputs"""
    lines = []
    for _ in range(rng.randint(2, 4)):
        k = rng.choice([7, 21, 31, 51, 100, rng.randint(1, 120)])
        scaled = rng.choice([1, 10, 100, 1000])
        a, b = ratio(rng)
        c = bits(a / b)
        r = rng.random()
        if r < 0.06:
            c = ONE_MINUS
        elif r < 0.12:
            c = bits(1 / 10 ** 10)
        n = rng.choice([b * scaled, b * scaled, rng.randint(1, 50), 10 ** 4, 10 ** 6])
        conf = rng.choice([0.95, 0.95, 0.5, 0.9, 0.99, rng.uniform(0.05, 0.999)])
        lines.append(f"c2dci {c} {k} {scaled} {n} {bits(1e-3)} {bits(conf)} ? ?")
        lines.append(f"nat ani {c} {k}")
        lines.append(f"nat inc-ani {c} {k}")
        lines.append(f"nat ci {c} {k} {scaled} {n} {bits(conf)} ? ?")
        lines.append(f"nat inc-ci {c} {k} {scaled} {n} {bits(conf)} ? ?")
        if rng.random() < 0.3:
            lines.append(f"nat ci {c} {k} {scaled} {n} N ? ?")
        # the helpers, on the mutation rate the point estimate gives (and on tiny / large ones)
        r1 = rng.choice([1.0 - (a / b) ** (1.0 / k) if 0 < a <= b else rng.random(), rng.random(), 10.0 ** -rng.randint(1, 10), 0.0, 1.0])
        L = rng.choice([n, n, rng.randint(1, 100), 10 ** 7])
        lines.append(f"pyvar {L} {k} {bits(r1)}")
        lines.append(f"nat var {L} {k} {bits(r1)}")
        lines.append(f"nat q {k} {bits(r1)}")
        lines.append(f"nat exp {L} {k} {bits(r1)}")
        lines.append(f"nat exp2 {L} {k} {bits(r1)}")
        lines.append(f"nat pnc {bits(1.0 - r1)} {k} {scaled} {L}")
        p = rng.choice([0.5, 0.975, 0.75, 0.995, rng.uniform(0.5, 0.9999), 1.0 - (1.0 - conf) / 2])
        lines.append(f"nat probit {bits(p)} ?")
    # the native GatherResult (src/core/src/index/mod.rs calculate_gather_stats) next to search.GatherResult
    for _ in range(rng.randint(1, 2)):
        sc = rng.choice([1, 10, 100, 1000])
        lq = rng.choice([rng.randint(2, 60), rng.randint(80, 400), rng.randint(400, 3000)])
        lm = rng.choice([lq, rng.randint(2, 60), rng.randint(80, 400), rng.randint(400, 3000)])
        cm = rng.choice([1, min(lq, lm), rng.randint(1, min(lq, lm))])
        rem = rng.choice([0, 0, rng.randint(0, cm - 1)])        # hashes already claimed by earlier gather rounds
        lines.append(f"nat gstats {lq} {lm} {cm} {sc} {rng.choice([21, 31, 51])} {rem} {rng.randint(0, 1)} "
                     f"{rng.choice([bits(0.95), bits(0.9), 'N'])} " + " ".join(["?"] * 12))
    return lines


def _je(la, lb, cm, scaled, k):
    """closed form of the Jaccard error bound of jaccard_to_distance for two sketches (binary64, as the code evaluates it)"""
    j = cm / (la + lb - cm)
    if j in (0, 1):
        return 0.0
    n = round((la + lb) / 2 * scaled)
    r1 = 1.0 - (2.0 * j / (1 + j)) ** (1.0 / k)
    q = 1 - (1 - r1) ** k
    var = n * (1 - q) * (q * (2 * k + (2 / r1) - 1) - 2 * k) + k * (k - 1) * (1 - q) ** 2 + (2 * (1 - q) / (r1 ** 2)) * ((1 + (k - 1) * (1 - q)) * r1 - q)
    if var < 0:
        return None
    return n * var / (n + n * q) ** 3


def gen_jewin(rng):
    """boundary flavour: size-accurate sketch pairs whose Jaccard error bound lies just below / inside / just above the
    windows around the documented err_threshold 1e-4 (and around 1e-3, the prob_threshold it is easily confused with):
    the estimate must be withheld exactly above 1e-4, through every entry point"""
    lines = []
    targets = [1e-4, 1e-4, 1e-3]
    for t in targets:
        best = {}
        for _ in range(300):
            scaled = rng.choice([1, 1, 100])
            la = rng.randint(200, 4000) if scaled == 1 else rng.randint(130, 500)
            lb = rng.choice([la, rng.randint(200, 4000) if scaled == 1 else rng.randint(130, 500)])
            cm = rng.randint(1, min(la, lb))
            k = rng.choice([7, 21, 31, 51])
            v = _je(la, lb, cm, scaled, k)
            if v is None or v <= 0:
                continue
            side = "above" if v > t else "below"
            if side not in best or abs(v - t) < abs(best[side][0] - t):
                best[side] = (v, la, lb, cm, scaled, k)
        mid = [(v, la, lb, cm, sc, k) for v, la, lb, cm, sc, k in best.values()]
        for v, la, lb, cm, sc, k in mid:
            lines.append(f"mh jac {la} {lb} {cm} {sc} {k} ? ? ? ?")
            if rng.random() < 0.5:
                lines.append(f"cmpani {la} {lb} {cm} {sc} {k} {int(rng.random() < 0.3)} ? ? ? ? ? ?")
            if rng.random() < 0.3:
                lines.append(f"cls {la} {lb} {cm} 0 0 {sc} {sc} {k} {rng.choice(['-', sc])} 0 {bits(0.95)} " + " ".join(["?"] * 17))
    # and well inside (1e-4, 1e-3]
    for _ in range(200):
        la = rng.randint(300, 4000)
        cm, k = rng.randint(1, la), rng.choice([7, 21, 31, 51])
        v = _je(la, la, cm, 1, k)
        if v is not None and 2e-4 < v < 8e-4:
            lines.append(f"mh jac {la} {la} {cm} 1 {k} ? ? ? ?")
            lines.append(f"cmpani {la} {la} {cm} 1 {k} 1 ? ? ? ? ? ?")
            break
    return lines


def gen_cls(rng):
    """the SAME kind of sketch pairs as the `mh` flavour, through FracMinHashComparison / PrefetchResult / GatherResult /
    SearchResult: equal or different scaled, comparison scaled None / max / coarser / (rarely) finer than the sketches,
    with and without confidence intervals, hashes that exist only at the finer resolution"""
    lines = []
    for _ in range(rng.randint(2, 4)):
        sa = rng.choice([1, 1, 2, 10, 100, 1000])
        sb = sa if rng.random() < 0.6 else rng.choice([1, 2, 10, 100, 1000])
        top = max(sa, sb)
        r = rng.random()
        cs = "-" if r < 0.35 else (top if r < 0.65 else (top * rng.choice([2, 5, 10]) if r < 0.95 else max(1, top // 2)))
        cse = top if cs == "-" else cs
        k = rng.choice([7, 21, 31, 51, rng.randint(1, 120)])
        la = rng.choice([1, 2, 5, rng.randint(1, 50), rng.randint(50, 400), rng.randint(400, 3000)])
        lb = rng.choice([la, 1, rng.randint(1, 50), rng.randint(50, 400), rng.randint(400, 3000)])
        if cse > 1 and rng.random() < 0.4:
            thr = min([(abs(x - cse), t) for x, t in ((2, 47), (10, 88), (100, 92), (1000, 95))])[1]
            la, lb = rng.randint(thr - 8, thr + 8), rng.randint(thr - 8, thr + 8)
        r = rng.random()
        cm = 0 if r < 0.25 else (min(la, lb) if r < 0.5 else rng.randint(0, min(la, lb)))
        xa, xb = rng.choice([0, 0, 3, 40]), rng.choice([0, 0, 5])
        ci = int(rng.random() < 0.4)
        conf = rng.choice([0.95, 0.95, 0.9, 0.5, 0.99])
        lines.append(f"cls {la} {lb} {cm} {xa} {xb} {sa} {sb} {k} {cs} {ci} {bits(conf)} " + " ".join(["?"] * 17))
    if rng.random() < 0.3:
        la, lb = rng.randint(1, 60), rng.randint(1, 60)
        lines.append(f"clsnum {la} {lb} {rng.randint(0, min(la, lb))} {rng.choice([10, 50, 500])} {rng.choice([21, 31])}")
    return lines


def gen_case(rng, flavour):
    g = {"jewin": gen_jewin, "cls": gen_cls, "closed": gen_closed, "res": gen_res, "ci": gen_ci, "mh": gen_mh, "sia": gen_sia, "native": gen_native}[flavour]
    return fill(g(rng))


# --------------------------------------------------------------------------
# oracle: the property statement on the implementation's own outputs (never looks at the model)

decimal.getcontext().prec = 60


def ref_dist(x, k, kind):
    """1 - x^(1/k)  resp.  1 - (2x/(1+x))^(1/k), 60 digits, from the exact value of the double x"""
    X = decimal.Decimal(x)
    if kind == "j":
        X = 2 * X / (1 + X)
    return 1 - (X.ln() / k).exp()


def parse(o):
    d = {}
    for t in o.split():
        if "=" in t:
            k, v = t.split("=", 1)
            d[k] = v
    return d


def f_or_none(s):
    return None if s in (None, "N") else fl(s)


def ofl_s(s):
    return "None" if s == "N" else repr(fl(s))


def oracle(case, impl):
    bad = []
    mono = {}
    for idx, (l, o) in enumerate(zip(case, impl)):
        w = l.split()
        if o == "bad-op" or not w:
            continue
        r = parse(o)
        op = w[0]
        if o.startswith("history-differs"):
            bad.append((idx, f"C17:history-differs:{op}", f"{o[:200]} [{' '.join(w[:5])}]"))
            continue
        if o.startswith("routes-differ") or " views=DIFF:" in o:
            what = o if o.startswith("routes-differ") else o.split(" views=DIFF:", 1)[1]
            bad.append((idx, f"C17:views-differ:{op}", f"the same quantity read / computed two ways differs: {what[:300]} [{' '.join(w[:12])}]"))
            if o.startswith("routes-differ"):
                continue
        if op in ("c2d", "c2dci", "j2d"):
            x, k, scaled, n = fl(w[1]), int(w[2]), int(w[3]), int(w[4])
            kind = "j" if op == "j2d" else "c"
            if not (0 <= x <= 1):
                # not a ratio of sketch sizes: refused (ValueError from check_distance) or answered, the property
                # says nothing; only the model comparison applies
                bad.append((idx, "skip:outside-domain", "input is not in [0,1]"))
                continue
            if o.startswith("err"):
                if op == "j2d" and n < k:
                    bad.append((idx, "skip:refused-too-small", "n_unique_kmers < ksize: documented 'tiny test data' refusal"))
                elif op == "j2d":
                    bad.append((idx, "C17:jaccard_to_distance:varN-negative-by-cancellation",
                                f"jaccard_to_distance({x!r}, {k}, {scaled}, n_unique_kmers={n}) raises {o} (n >= ksize, 0 < j < 1)"))
                else:
                    bad.append((idx, f"C17:unexpected-error:{op}", f"{l[:80]} -> {o}"))
                continue
            dist, ani = fl(r["d"]), f_or_none(r["ani"])
            if not (0.0 <= dist <= 1.0):
                bad.append((idx, f"C17:range:{op}", f"dist {dist!r} outside [0,1] for {l[:60]}"))
                continue
            if ani is None:
                if not (op == "j2d" and r.get("jx") == "1"):
                    bad.append((idx, f"C17:withheld-without-reason:{op}", f"{l[:60]} -> {o[:80]}"))
                continue
            if not (0.0 <= ani <= 1.0):
                bad.append((idx, f"C17:range:{op}", f"ani {ani!r} outside [0,1]"))
            if ani != 1.0 - dist:
                bad.append((idx, f"C17:ani-not-1-minus-dist:{op}", f"ani={ani!r} dist={dist!r}"))
            if x == 1 and ani != 1.0:
                bad.append((idx, f"C17:at-one:{op}", f"identical sketches but ani={ani!r}"))
            if x == 0 and ani != 0.0:
                bad.append((idx, f"C17:at-zero:{op}", f"disjoint sketches but ani={ani!r}"))
            if 0 < x < 1:
                ref = ref_dist(x, k, kind)
                err = abs(decimal.Decimal(dist) - ref)
                if err > decimal.Decimal(REL_TOL) * abs(ref) + decimal.Decimal(4e-16):
                    bad.append((idx, f"C17:closed-form:{op}", f"dist={dist!r} but 1 - x^(1/k) = {float(ref)!r} (x={x!r}, k={k})"))
            if op == "j2d" and r.get("jx") == "1":
                bad.append((idx, "C17:not-withheld:j2d", f"jaccard error exceeds its threshold but ani={ani!r} was reported"))
            pthr = f_or_none(w[5])
            if (r["px"] == "1") != (pthr is not None and fl(r["p"]) > pthr):
                bad.append((idx, f"C17:p-threshold-flag:{op}", f"{o[:100]} with threshold {pthr!r}"))
            mono.setdefault((kind, k), []).append((x, ani, idx))
            if op == "c2dci" or r.get("lo", "N") != "N":
                lo, hi, alo, ahi = (f_or_none(r.get(t)) for t in ("lo", "hi", "alo", "ahi"))
                if (lo is None) != (hi is None) or (alo is None) != (lo is None) or (ahi is None) != (hi is None):
                    bad.append((idx, "C17:ci-half-present", o[:120]))
                elif lo is not None:
                    if not (0.0 <= alo <= ani <= ahi <= 1.0):
                        bad.append((idx, "C17:ci-not-bracketing", f"ani_low={alo!r} ani={ani!r} ani_high={ahi!r} for {l[:70]}"))
                    if alo != 1.0 - hi or ahi != 1.0 - lo:
                        bad.append((idx, "C17:ci-not-1-minus-dist", o[:120]))
        elif op == "res":
            kind = w[1]
            d, p, pthr, size = fl(w[2]), fl(w[3]), f_or_none(w[4]), w[5] == "1"
            legal = 0 <= d <= 1
            je = lo = hi = None
            if kind == "jac":
                je = f_or_none(w[6])
                legal = legal and je is not None
            if kind == "ci":
                lo, hi = f_or_none(w[6]), f_or_none(w[7])
                if lo is not None and hi is not None:
                    legal = legal and 0 <= lo <= 1 and 0 <= hi <= 1
            if o.startswith("exact err"):
                if legal:
                    bad.append((idx, f"C17:res-refused:{kind}", f"{l[:80]} -> {o}"))
                continue
            if not legal:
                bad.append((idx, f"C17:res-accepted-illegal:{kind}", f"{l[:80]} -> {o[:60]}"))
                continue
            ani = f_or_none(r["ani"])
            jx = kind == "jac" and f_or_none(w[7]) is not None and je > f_or_none(w[7])
            if kind == "jac" and (r["jx"] == "1") != jx:
                bad.append((idx, "C17:je-threshold-flag", f"{l[:80]} -> {o[:80]}"))
            if (size or jx) != (ani is None):
                bad.append((idx, f"C17:withheld-iff-unreliable:{kind}",
                            f"size_is_inaccurate={size} je_exceeds={jx} but ani={r['ani']}"))
            if ani is not None and r["ani"] != bits(1.0 - d):
                bad.append((idx, f"C17:ani-not-1-minus-dist:res-{kind}", f"{l[:60]} -> {o[:60]}"))
            if (r["px"] == "1") != (pthr is not None and p > pthr):
                bad.append((idx, f"C17:p-threshold-flag:res-{kind}", f"{l[:80]} -> {o[:80]}"))
            if kind == "ci":
                alo, ahi = f_or_none(r["alo"]), f_or_none(r["ahi"])
                if (alo is None) != (hi is None or size) or (ahi is None) != (lo is None or size):
                    bad.append((idx, "C17:ci-withheld-iff", f"{l[:80]} -> {o[:100]}"))
                if alo is not None and r["alo"] != bits(1.0 - hi) or ahi is not None and r["ahi"] != bits(1.0 - lo):
                    bad.append((idx, "C17:ci-not-1-minus-dist", o[:120]))
        elif op == "mh":
            kind, la, lb, cm, scaled, k = w[1], int(w[2]), int(w[3]), int(w[4]), int(w[5]), int(w[6])
            acc = r.get("acc")
            if r.get("routes", "ok") != "ok":
                bad.append((idx, f"C17:routes-differ:{kind}",
                            f"the same estimate through different entry points: {o.split('routes=', 1)[1][:160]} "
                            f"[{la} vs {lb} hashes, {cm} shared, scaled {scaled}, k {k}]"))
            if " err " in " " + o + " ":
                n = round((la + lb) / 2 * scaled) if kind == "jac" else min(la, lb) * scaled
                if kind == "jac" and n < k:
                    bad.append((idx, "skip:refused-too-small", "n_unique_kmers < ksize"))
                elif kind == "jac":
                    bad.append((idx, "C17:jaccard_to_distance:varN-negative-by-cancellation", f"{l[:70]} -> {o[-40:]}"))
                else:
                    bad.append((idx, f"C17:unexpected-error:mh-{kind}", f"{l[:70]} -> {o[-40:]}"))
                continue
            ani = f_or_none(r["ani"])
            unreliable = acc != "11" or r.get("jx") == "1"
            if unreliable != (ani is None):
                bad.append((idx, f"C17:withheld-iff-unreliable:mh-{kind}", f"size_is_accurate={acc} jx={r.get('jx')} but ani={r['ani']} ({l[:60]})"))
            if ani is not None:
                if not (0.0 <= ani <= 1.0):
                    bad.append((idx, f"C17:range:mh-{kind}", f"ani={ani!r}"))
                if cm == la == lb and ani != 1.0:
                    bad.append((idx, f"C17:at-one:mh-{kind}", f"identical sketches, ani={ani!r}"))
                if cm == 0 and ani != 0.0:
                    bad.append((idx, f"C17:at-zero:mh-{kind}", f"disjoint sketches, ani={ani!r}"))
        elif op == "cmpani":
            if not o.startswith("ok "):
                bad.append((idx, "C17:compare-ani:adapter", o[:100]))
                continue
            acc = r["ref.acc"]
            ctx = f"[{w[1]} vs {w[2]} hashes, {w[3]} shared, scaled {w[4]}, k {w[5]}; size_is_accurate = {acc}]"

            def entry(path, got, ref):
                """withheld (None) must be exactly 0.0, a present estimate must be the estimate"""
                want = ZERO if ref == "N" else ref
                if got != want:
                    sig = f"C17:compare-ani:fabricated:{path}" if ref == "N" else f"C17:compare-ani:differs:{path}"
                    bad.append((idx, sig, f"{path}: matrix entry {f_or_none(got) if got.isdigit() else got!r} but the MinHash-level estimate is "
                                          f"{'withheld (None): the entry must be 0.0' if ref == 'N' else repr(fl(ref))} {ctx}"))
            jref = r["ref.j"]
            for path in ("ser", "ser1", "par"):
                v = r[path]
                if v == "-":
                    continue
                if jref.startswith("E") or v.startswith("E"):
                    if jref.startswith("E") != v.startswith("E"):
                        bad.append((idx, f"C17:compare-ani:error-mismatch:{path}", f"pairwise jaccard_ani: {jref}, matrix builder: {v} {ctx}"))
                    continue
                names = {"ser": "compare_all_pairs(n_jobs=None)", "ser1": "compare_serial", "par": "compare_all_pairs(n_jobs=2)"}
                for e in v.split(","):
                    entry(names[path], e, jref)
            c01, c10 = r["cont"].split(",")
            entry("compare_serial_containment[0][1]", c01, r["ref.c21"])
            entry("compare_serial_containment[1][0]", c10, r["ref.c12"])
            for e in r["max"].split(","):
                entry("compare_serial_max_containment", e, r["ref.mc"])
            both = r["ref.c12"] != "N" and r["ref.c21"] != "N"
            for e in r["avg"].split(","):
                if not both:
                    entry("compare_serial_avg_containment", e, "N")
                elif fl(e) != (fl(r["ref.c21"]) + fl(r["ref.c12"])) / 2:
                    entry("compare_serial_avg_containment", e, bits((fl(r["ref.c21"]) + fl(r["ref.c12"])) / 2))
            # the MinHash-level estimates themselves: withheld iff a size is inaccurate
            for nm in ("ref.c12", "ref.c21", "ref.mc"):
                if (r[nm] == "N") != (acc != "11"):
                    bad.append((idx, f"C17:withheld-iff-unreliable:{nm}", f"{nm} = {r[nm]} {ctx}"))
        elif op == "cls":
            bad.extend(oracle_cls(idx, w, l, o, r))
        elif op == "clsnum":
            if r.get("c.j") != "ETypeError" or r.get("s.j", "x").split(",")[0] != "N" or r.get("c.sinacc") != "0":
                bad.append((idx, "C17:num-sketches-get-an-ani", f"{l} -> {o[:100]}"))
        elif op == "sia":
            length, scaled, rel, conf = int(w[1]), int(w[2]), fl(w[3]), fl(w[4])
            if scaled == 0:
                if o != "err TypeError":
                    bad.append((idx, "C17:sia:num-sketch-answered", f"{l[:60]} -> {o[:60]}"))
                continue
            legal = 0 <= rel <= 1 and 0 <= conf <= 1
            if not legal:
                if o != "err ValueError":
                    bad.append((idx, "C17:sia:illegal-parameters-answered", f"{l[:60]} -> {o[:60]}"))
                continue
            if not o.startswith("ok "):
                bad.append((idx, "C17:sia:refused", f"{l[:60]} -> {o[:60]}"))
                continue
            calls = [c.split(":")[0] for c in r["calls"].split(",")]
            if calls[:2] != ["cdf", "cdf"] or calls[2:] not in ([], ["pmf"]):
                bad.append((idx, "C17:sia:formula", f"size_is_accurate no longer evaluates the exact binomial probability: {r['calls'][:80]}"))
            if int(r["n"]) != length * scaled or fl(r["p"]) != 1 / scaled:
                bad.append((idx, "C17:sia:binomial-parameters", f"n={r['n']} p={fl(r['p'])!r} for {length} hashes at scaled {scaled}"))
            prob = fl(r["prob"])
            if (r["acc"] == "1") != (prob >= conf):
                bad.append((idx, "C17:sia:decision", f"probability {prob!r} vs confidence {conf!r} but size_is_accurate = {r['acc']}"))
            if not (-1e-9 <= prob <= 1 + 1e-9):
                bad.append((idx, "C17:sia:probability-range", f"probability {prob!r}"))
        elif op == "nat":
            which = w[1]
            if o == "no-native-harness":
                bad.append((idx, "C17:native-harness-missing", "rust-harness binary not built"))
                continue
            # the Python twin on the same input: the closest earlier op of the case
            def earlier(pred):
                for j in range(idx - 1, -1, -1):
                    if pred(case[j].split()):
                        return parse(impl[j]), impl[j]
                return None, None
            if which in ("ani", "inc-ani"):
                py, pyo = earlier(lambda x: x[0] in ("c2d", "c2dci") and x[1:3] == w[2:4])
                c = fl(w[2])
                if py is not None and 0 <= c <= 1 and "ani" in py and py["ani"] != "N" and py["ani"] != r.get("ani"):
                    bad.append((idx, "C17:native-vs-python:point-estimate",
                                f"ani_from_containment({c!r}, {w[3]}) = {f_or_none(r.get('ani'))!r} but Python reports {fl(py['ani'])!r}"))
            elif which in ("ci", "inc-ci"):
                c = fl(w[2])
                py, pyo = earlier(lambda x: x[0] == "c2dci" and x[1:5] == w[2:6] and (w[6] == "N" or x[6] == w[6]))
                lib, libo = earlier(lambda x: x[0] == "nat" and x[1] == "ci" and x[2:7] == w[2:7]) if which == "inc-ci" else (None, None)
                if which == "inc-ci" and libo is not None and libo != o:
                    bad.append((idx, "C17:native:included-copy-differs", f"{libo} vs {o}"))
                if not o.startswith("ok ") or not (0 < c < 1):
                    continue
                alo, ahi = fl(r["alo"]), fl(r["ahi"])
                if alo == 1.0 or ahi == 1.0:
                    # the root search lives in [1e-7, 0.9999999]: a bound of exactly 1.0 can only be `unwrap_or_default()`
                    pyw = "" if py is None else f"; Python for the same input: lo={py.get('lo')} hi={py.get('hi')}" + \
                        (" (withheld)" if py.get("lo") == "N" else "")
                    bad.append((idx, "C17:native-ci:unwrap_or_default",
                                f"ani_ci_from_containment({c!r}, k={w[3]}, scaled={w[4]}, n_unique_kmers={w[5]}, confidence={ofl_s(w[6])}) "
                                f"= ({alo!r}, {ahi!r}){pyw}"))
                    continue
                if py is not None and pyo.startswith("ok ") and py.get("alo", "N") == "N" and w[6] != "N":
                    # the Python twin withholds (brentq raised: "Do your sketches contain enough hashes?"); the native one swallows
                    # the varN<0 error (`var_n_mutated(..).unwrap_or(0.0)`) and answers
                    bad.append((idx, "C17:native-ci:answers-where-python-withholds",
                                f"ani_ci_from_containment({c!r}, k={w[3]}, scaled={w[4]}, n_unique_kmers={w[5]}, confidence={ofl_s(w[6])}) "
                                f"= ({alo!r}, {ahi!r}) but the Python twin reports no interval"))
                    continue
                if py is not None and py.get("alo", "N") != "N" and w[6] != "N":
                    # two different root finders with different stopping rules (roots' SimpleConvergency(eps=1e-15) also stops on
                    # |f| < eps, which for containment ~1e-7 leaves the root 2e-4 off; scipy brentq: xtol=2e-12): 1e-3 absolute
                    palo, pahi = fl(py["alo"]), fl(py["ahi"])
                    if abs(palo - alo) > CI_TOL or abs(pahi - ahi) > CI_TOL:
                        bad.append((idx, "C17:native-vs-python:ci", f"native ({alo!r}, {ahi!r}) vs Python ({palo!r}, {pahi!r}) for {l[:70]}"))
                if not (0.0 <= alo <= ahi + 1e-9 and ahi <= 1.0):
                    bad.append((idx, "C17:native-ci:not-ordered", f"({alo!r}, {ahi!r}) for {l[:70]}"))
            elif which == "gstats":
                if not o.startswith("ok "):
                    bad.append((idx, "C17:native-gather:refused", f"{l[:70]} -> {o[:60]}"))
                    continue
                lq, lm, cm, sc, k, rem = (int(x) for x in w[2:8])
                py = r["py"].split(",")
                q, m = fl(r["q"]), fl(r["m"])
                ctx = f"[orig query {lq} hashes, match {lm}, {cm} shared, {rem} already claimed, scaled {sc}, k {k}]"
                if py[0] == "N":
                    bad.append((idx, "C17:native-gather:reports-where-python-withholds",
                                f"native GatherResult: query_containment_ani={q!r}, match_containment_ani={m!r}; search.GatherResult withholds all four ANI fields {ctx}"))
                else:
                    for nm, a, b_ in (("query_containment_ani", r["q"], py[0]), ("match_containment_ani", r["m"], py[1]),
                                      ("average_containment_ani", r["avg"], py[2]), ("max_containment_ani", r["max"], py[3])):
                        if a != b_:
                            bad.append((idx, "C17:native-vs-python:gather-point", f"{nm}: native {fl(a)!r} vs Python {f_or_none(b_)!r} {ctx}"))
                if r["qlo"] != "N":
                    qlo, qhi, mlo, mhi = (fl(r[t]) for t in ("qlo", "qhi", "mlo", "mhi"))
                    if (1.0 in (qlo, qhi) and q < 1.0) or (1.0 in (mlo, mhi) and m < 1.0):
                        bad.append((idx, "C17:native-ci:unwrap_or_default", f"native GatherResult interval bound 1.0: ({qlo!r},{qhi!r}) ({mlo!r},{mhi!r}) {ctx}"))
                    elif not (qlo - 1e-9 <= q <= qhi + 1e-9 and mlo - 1e-9 <= m <= mhi + 1e-9):
                        bad.append((idx, "C17:native-gather:ci-does-not-bracket-point",
                                    f"native GatherResult: query ANI {q!r} with interval ({qlo!r}, {qhi!r}); match ANI {m!r} with ({mlo!r}, {mhi!r}) {ctx}"))
                    elif rem == 0:
                        if "N" not in py[6:8] and (abs(fl(py[6]) - mlo) > CI_TOL or abs(fl(py[7]) - mhi) > CI_TOL):
                            bad.append((idx, "C17:native-vs-python:gather-ci", f"match interval native ({mlo!r},{mhi!r}) vs Python ({fl(py[6])!r},{fl(py[7])!r}) {ctx}"))
                        if "N" not in py[4:6] and (abs(fl(py[4]) - qlo) > CI_TOL or abs(fl(py[5]) - qhi) > CI_TOL):
                            bad.append((idx, "C17:native-gather:query-ci-uses-match-size",
                                        f"query interval native ({qlo!r},{qhi!r}) vs Python ({fl(py[4])!r},{fl(py[5])!r}) {ctx}"))
            elif which == "probit":
                p, z = fl(w[2]), f_or_none(r.get("z"))
                if z is not None and ((p == 0.5 and z != 0.0) or (p > 0.5 and not z > 0.0)):
                    bad.append((idx, "C17:native-probit", f"probit({p!r}) = {z!r}"))
                mono.setdefault(("probit", 0), []).append((p, z, idx))
    for (kind, k), pts in mono.items():
        pts.sort()
        for (x1, a1, i1), (x2, a2, i2) in zip(pts, pts[1:]):
            if x1 < x2 and a1 > a2:
                bad.append((max(i1, i2), f"C17:not-monotone:{kind}",
                            f"k={k}: x={x1!r} -> ani {a1!r} but x={x2!r} -> ani {a2!r}"))
    return bad


def oracle_cls(idx, w, l, o, r):
    """relation oracle: every ANI the comparison / result classes report EQUALS the MinHash-level answer on the sketches
    downsampled to the comparison scaled (C17:comparison-class-differs:<field>), plus the statement's own laws"""
    bad = []
    la, lb, cm, xa, xb, sa, sb, k = (int(x) for x in w[1:9])
    cs = None if w[9] == "-" else int(w[9])
    ci = w[10] == "1"

    def diff(field, got, want):
        if got != want:
            bad.append((idx, f"C17:comparison-class-differs:{field}",
                        f"{field} = {show(got)} but the MinHash-level answer on the downsampled sketches is {show(want)} "
                        f"[{' '.join(w[:12])}]"))

    def show(t):
        return ",".join(("None" if x == "N" else "0.0" if x == "0" else (repr(fl(x)) if x.isdigit() and len(x) > 12 else x)) for x in str(t).split(","))

    if not o.startswith("ok "):
        return [(idx, "C17:cls:adapter", o[:100])]
    keys = ["c.c12", "c.c21", "c.avgp", "c.all", "c.mx", "c.j", "c.sinacc", "p", "g", "s.c", "s.m", "s.j"]
    if "ref" in r:                  # the MinHash-level downsampling raises: so must every class
        for kk in keys:
            if not r.get(kk, "").startswith("E"):
                diff(kk, r.get(kk), r["ref"])
        return bad
    acc = r["ref.acc"]
    c12, c21, mc = r["ref.c12"].split(","), r["ref.c21"].split(","), r["ref.mc"].split(",")
    jerr = r["ref.j"].startswith("E")
    j = r["ref.j"].split(",")
    mask = lambda t: [t[0], t[1] if ci else "N", t[2] if ci else "N", t[3]]      # noqa: E731
    pfn = str(int(c12[3] == "1" or c21[3] == "1"))
    diff("ani_from_mh1_containment_in_mh2", r["c.c12"], ",".join(mask(c12)))
    diff("ani_from_mh2_containment_in_mh1", r["c.c21"], ",".join(mask(c21)))
    diff("avg_containment_ani", r["c.avgp"], f"{r['ref.avg']},{pfn}")
    # estimate_all_containment_ani: max of the two directional values == the MinHash-level max_containment_ani
    both = c12[0] != "N" and c21[0] != "N"
    mx2 = "N" if not both else (c12[0] if fl(c12[0]) >= fl(c21[0]) else c21[0])
    diff("estimate_all_containment_ani", r["c.all"], f"{c12[0]},{c21[0]},{mx2},{pfn}")
    diff("max_containment_ani(all)-vs-MinHash.max_containment_ani", r["c.all"].split(",")[2], mc[0])
    diff("max_containment_ani", r["c.mx"], ",".join(mask(mc)))
    diff("jaccard_ani", r["c.j"], r["ref.j"] if jerr else f"{j[0]},{j[1]},{j[2]}")
    diff("size_may_be_inaccurate", r["c.sinacc"], str(int(acc != "11")))
    cols = [c12[0], c21[0], r["ref.avg"], mx2] + (mask(c12)[1:3] + mask(c21)[1:3])
    pres = "".join("0" if x == "N" else "1" for x in cols)
    want_p = ",".join(cols[:4]) + f",{pfn}," + ",".join(cols[4:]) + f",{pres},{pres}"
    diff("PrefetchResult", r["p"], want_p)
    if r["g"].startswith("E"):
        if not (cs is None and r["g"] == "EValueError") and not (cm == 0 and r["g"] == "EAssertionError"):
            diff("GatherResult", r["g"], want_p)
    else:
        diff("GatherResult", r["g"], want_p)
    for key, ref4, nm in (("s.c", mask(c12), "SearchResult(containment)"), ("s.m", mask(mc), "SearchResult(max_containment)")):
        diff(nm, r[key], ",".join(ref4) + "," + "".join("0" if x == "N" else "1" for x in ref4[:3]))
    diff("SearchResult(jaccard)", r["s.j"], r["ref.j"] if jerr else f"{j[0]},N,N,{j[1]}," + ("0" if j[0] == "N" else "1") + "00")
    # the statement's own laws, on the class-level values themselves
    vals = {"avg_containment_ani": r["c.avgp"].split(",")[0], "max_containment_ani": r["c.all"].split(",")[2],
            "ani_from_mh1_containment_in_mh2": r["c.c12"].split(",")[0], "ani_from_mh2_containment_in_mh1": r["c.c21"].split(",")[0],
            "estimate_max_containment_ani": r["c.mx"].split(",")[0]}
    if not r["p"].startswith("E"):
        pv = r["p"].split(",")
        vals.update({"PrefetchResult.query_containment_ani": pv[0], "PrefetchResult.match_containment_ani": pv[1],
                     "PrefetchResult.average_containment_ani": pv[2], "PrefetchResult.max_containment_ani": pv[3]})
    if not r["g"].startswith("E"):
        gv = r["g"].split(",")
        vals.update({"GatherResult.average_containment_ani": gv[2], "GatherResult.max_containment_ani": gv[3]})
    for nm, v in vals.items():
        if v.startswith("E"):
            continue
        if (v == "N") != (acc != "11"):
            bad.append((idx, f"C17:class-law:withheld-iff-unreliable:{nm}", f"size_is_accurate = {acc} but {nm} = {show(v)} [{' '.join(w[:12])}]"))
        elif v != "N":
            if cm == 0 and v != ZERO:
                bad.append((idx, f"C17:class-law:disjoint-not-zero:{nm}", f"{nm} = {show(v)} for disjoint sketches"))
            if cm == la == lb and v != ONE:
                bad.append((idx, f"C17:class-law:identical-not-one:{nm}", f"{nm} = {show(v)} for identical sketches"))
    return bad


def nontrivial(case, impl):
    """>= 3 answered ops with pairwise different outputs"""
    outs = {o for l, o in zip(case, impl) if o not in ("bad-op",) and not o.endswith("err ValueError")}
    return len(outs) >= 3
