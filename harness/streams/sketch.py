"""The `sketch` correspondence stream (C14): parameter strings from a grammar through
`_parse_params_str` / `_signatures_for_sketch_factory` / `ComputeParameters` / `from_params`
(model: lean Model/SketchParams.lean), plus `feed` ops that add generated FASTA records to the
factory's (tree-backed) sketches and to `MinHash(...)` objects created directly from the
generator's own structured reading of the same specification; the oracle compares the two."""
import os
import re
import sys

sys.path.insert(0, os.path.dirname(os.path.dirname(os.path.abspath(__file__))))

MODULE = "sketch"
ADAPTER = "sketch_impl.py"

MOLS = ["dna", "protein", "dayhoff", "hp"]
DOC_DEFAULT_K = {"dna": 31, "protein": 10, "dayhoff": 16, "hp": 42}      # docs: sourmash sketch defaults
DOC_DEFAULT_SCALED = {"dna": 1000, "protein": 200, "dayhoff": 200, "hp": 200}
SCALED_POOL = [1, 1, 2, 3, 5, 10, 93, 99, 100, 186, 200, 1000, 12345, 2 ** 20]
AA = "ACDEFGHIKLMNPQRSTVWY"


def hx(s):
    return s.encode("latin-1").hex() if s else "-"


def unhx(t):
    return "" if t == "-" else bytes.fromhex(t).decode("latin-1")


def render_int(rng, n, fancy):
    s = str(n)
    if fancy and rng.random() < 0.25:
        r = rng.random()
        if r < 0.3:
            s = "+" + s
        elif r < 0.5 and len(s) > 1:
            s = s[0] + "_" + s[1:]
        elif r < 0.7:
            s = " " + s + " "
        elif r < 0.85:
            s = "0" + s
        else:
            s = s + "\t"
    return s


def gen_group(rng, cmd_mol, fancy=True, small=True, zero_ok=True):
    """one -p group: structured spec and its rendering"""
    g = {"mol": None, "ks": [], "num": None, "scaled": None, "track": None, "seed": None}
    if rng.random() < 0.35:
        if cmd_mol == "dna":
            g["mol"] = "dna"
        else:
            g["mol"] = rng.choice(["protein", "dayhoff", "hp"])
    nk = rng.choice([0, 1, 1, 1, 2, 3])
    for _ in range(nk):
        g["ks"].append(rng.choice([3, 4, 5, 7, 9, 11, 15, 21, 31] if small else [21, 31, 51]))
    if nk >= 2 and rng.random() < 0.3:
        g["ks"][1] = g["ks"][0]                      # repeated k
    r = rng.random()
    if r < 0.4:
        g["scaled"] = rng.choice(SCALED_POOL)
    elif r < 0.75:
        g["num"] = rng.choice([1, 2, 3, 5, 20, 50, 500])
    elif r < 0.77 and zero_ok:
        # accepted by the command, refused by MinHash(...): an always-empty sketch (known finding)
        if rng.random() < 0.5:
            g["scaled"] = 0
        else:
            g["num"] = 0
    r = rng.random()
    if r < 0.35:
        g["track"] = True
    elif r < 0.6:
        g["track"] = False
    if rng.random() < 0.3:
        g["seed"] = rng.choice([0, 1, 7, 42, 43, 2 ** 32, 2 ** 64 - 1])
    items = []                                       # (text, k value or None)
    if g["mol"]:
        items.append((g["mol"], None))
    for k in g["ks"]:
        items.append(("k=" + render_int(rng, k, fancy), k))
    if g["scaled"] is not None:
        items.append(("scaled=" + render_int(rng, g["scaled"], fancy), None))
    if g["num"] is not None:
        items.append(("num=" + render_int(rng, g["num"], fancy), None))
    if g["track"] is not None:
        items.append(("abund" if g["track"] else "noabund", None))
        if rng.random() < 0.1:                       # a later abund/noabund wins
            items.append(("noabund" if g["track"] else "abund", None))
    if g["seed"] is not None:
        items.append(("seed=" + render_int(rng, g["seed"], fancy), None))
    rng.shuffle(items)
    # order matters for k (one sketch per k, in the order written) and for abund/noabund (last wins)
    g["ks"] = [k for _, k in items if k is not None]
    last = [t for t, _ in items if t in ("abund", "noabund")]
    if last:
        g["track"] = last[-1] == "abund"
    items = [t for t, _ in items]
    return g, ",".join(items)


def direct_specs(groups, cmd_mol, split):
    """the generator's reading of the documentation: one sketch per (group, k)"""
    out = []
    for g in groups:
        mol = g["mol"] or cmd_mol
        ks = g["ks"] or [DOC_DEFAULT_K[mol]]
        if g["num"] is not None:
            num, scaled = g["num"], 0
        elif g["scaled"] is not None:
            num, scaled = 0, g["scaled"]
        else:
            num, scaled = 0, DOC_DEFAULT_SCALED[mol]
        track = bool(g["track"])
        seed = 42 if g["seed"] is None else g["seed"]
        for k in ks:
            out.append(f"{k}:{mol}:{num}:{scaled}:{int(track)}:{seed}")
    return out


INVALID = ["num=abc", "num=1.5", "num=5,scaled=10", "scaled=10,num=5", "k", "kx=1", "k=", "scaled=1.5", "scaled=1e3", "num=-3", "scaled=-2",
           "", "k=21,", ",k=21", "foo", "k=abc", "seed=", "seed=x", " k=21", "K=21", "num", "num=", "scaled", "scaled=",
           "k=4294967296", "num=4294967296", "seed=18446744073709551616", "scaled=18446744073709551616",
           "seed=-1", "k=-1", "k=1__0", "k=_10", "k=10_", "scaled=0", "num=0", "num=0,scaled=7", "scaled=0,num=7",
           "abund,noabund,abund", "k=21,k=21,k=21", "scaled=9007199254740993", "scaled=100,scaled=200", "num=5,num=6",
           "noabund,num=3,scaled=0", "dna,protein", "protein,dna", "hp", "dayhoff,k=3", "kk=3", "numb=3", "seeds=4",
           "scaledx=3", "k=0x10", "scaled=1" + "0" * 25, "num=+7", "k=2 1"]


def dna_record(rng, lo=5, hi=160):
    n = rng.randint(lo, hi)
    s = "".join(rng.choice("ACGT") for _ in range(n))
    r = rng.random()
    if r < 0.2 and n > 3:
        i = rng.randrange(n)
        s = s[:i] + rng.choice("NnXRY-") + s[i + 1:]
    elif r < 0.3:
        s = s.lower()
    return s


def prot_record(rng, lo=3, hi=80):
    n = rng.randint(lo, hi)
    s = "".join(rng.choice(AA) for _ in range(n))
    if rng.random() < 0.15 and n > 3:
        i = rng.randrange(n)
        s = s[:i] + rng.choice("X*BZ") + s[i + 1:]
    return s


def gen_feed(rng):
    kind_cmd = rng.choice(["dna", "dna", "protein", "translate"])
    if kind_cmd == "dna":
        cmd_mol, input_kind = "dna", "dna"
    else:
        cmd_mol = rng.choice(["protein", "dayhoff", "hp"])
        input_kind = "protein" if kind_cmd == "protein" else "dna"
    ng = rng.choice([1, 1, 2, 3])
    groups, strs = [], []
    for _ in range(ng):
        g, s = gen_group(rng, cmd_mol)
        if not s:
            g, s = gen_group(rng, cmd_mol)
        groups.append(g)
        strs.append(s)
    if any(not s for s in strs):
        strs = [s or "k=5" for s in strs]
        groups = None
    split = rng.randint(0, 1)
    force = 1 if rng.random() < 0.85 else 0
    nrec = rng.choice([1, 1, 2, 3, 6])
    seqs = [prot_record(rng) if input_kind == "protein" else dna_record(rng) for _ in range(nrec)]
    if groups is None:
        return None
    D = direct_specs(groups, cmd_mol, split)
    return (f"feed {cmd_mol} {split} {input_kind} {force} P " + " ".join(hx(s) for s in strs) +
            " D " + " ".join(D) + " S " + " ".join(hx(s) for s in seqs))


def gen_native(rng):
    """the Rust path: any combination of molecule flags, num and/or scaled, records of either kind"""
    ks = ",".join(str(3 * rng.randint(1, 7)) for _ in range(rng.randint(1, 3)))
    fl = [rng.randint(0, 1) for _ in range(4)]
    if not any(fl):
        fl[rng.randrange(4)] = 1
    num, scaled = rng.choice([(0, rng.choice([1, 1, 2, 5, 93])), (rng.choice([1, 3, 50]), 0), (0, 0), (2, 1)])
    inp = rng.choice(["d", "d", "p"])
    recs = [prot_record(rng) if inp == "p" else dna_record(rng) for _ in range(rng.choice([1, 2, 4]))]
    return (f"native {ks} {rng.choice([0, 42, 42, 2 ** 64 - 1])} {fl[0]} {fl[1]} {fl[2]} {fl[3]} {num} {rng.randint(0, 1)} "
            f"{scaled} {inp} {1 if rng.random() < 0.8 else 0} S " + " ".join(hx(r) for r in recs))


def gen_fromfile(rng):
    """`sketch fromfile`: 1-3 -p groups that name their molecule type, a CSV of 1-4 rows (blank cells, rarely a
    duplicate or blank name), genome / protein FASTA files, and an --already-done collection holding some of
    the requested sketches (same name and parameters), some near misses (other k, abund, num) and strangers"""
    ngroups = rng.choice([1, 1, 2, 3])
    groups, strs = [], []
    for _ in range(ngroups):
        mol = rng.choice(["dna", "dna", "protein", "dayhoff", "hp"])
        ks = [rng.choice([3, 4, 5, 7]) for _ in range(rng.choice([1, 1, 2]))]
        size = rng.choice([("scaled", 1), ("scaled", 2), ("num", 3), ("num", 20), None])
        ab = rng.choice([None, None, True])
        items = [mol] + [f"k={k}" for k in ks]
        if size:
            items.append(f"{size[0]}={size[1]}")
        if ab:
            items.append("abund")
        if rng.random() < 0.05:
            items.append("seed=7")
        if rng.random() < 0.05:
            items = items[1:]                        # no molecule word: refused
        rng.shuffle(items)
        groups.append((mol, ks, size, bool(ab)))
        strs.append(",".join(items))
    names = [rng.choice(["g1", "g2", "sample three", "x|y"]) for _ in range(rng.choice([1, 2, 2, 3, 4]))]
    if rng.random() < 0.85:
        names = list(dict.fromkeys(names))
    if rng.random() < 0.05:
        names.append("")
    ftoks, rows = [], []
    for i, n in enumerate(names):
        g = f"g{i}.fa" if rng.random() < 0.85 else ""
        p = f"p{i}.faa" if rng.random() < 0.85 else ""
        if rng.random() < 0.04 and g:
            p = g                                    # the same file in both columns
        rows.append(f"{hx(n)}:{hx(g)}:{hx(p)}")
        if g:
            ftoks += ["F", hx(g)] + [hx(f"r{j}") + ":" + hx(dna_record(rng, 6, 50).replace("-", "N"))
                                     for j in range(rng.choice([1, 1, 2, 0] if rng.random() < 0.1 else [1, 2]))]
        if p and p != g:
            ftoks += ["F", hx(p)] + [hx(f"q{j}") + ":" + hx(prot_record(rng, 4, 30)) for j in range(rng.choice([1, 2]))]
    done = []
    for n in names:
        if not n:
            continue
        for mol, ks, size, ab in groups:
            for k in ks:
                r = rng.random()
                if r < 0.4:
                    num, scaled = (size[1], 0) if size and size[0] == "num" else (0, size[1] if size else (1000 if mol == "dna" else 200))
                    kk, a2 = k, ab
                    v = rng.random()
                    if v < 0.2:
                        a2 = not ab                       # differs ONLY in abundance tracking
                    elif v < 0.3:
                        num, scaled = (0, num) if num else (scaled, 0)     # differs ONLY in num vs scaled
                    elif v < 0.4:
                        kk = k + 1
                    elif v < 0.45:
                        mol2 = rng.choice(["dna", "protein", "dayhoff", "hp"])
                        done.append(f"{hx(n)}:{mol2}:{kk}:{num}:{scaled}:{int(a2)}")
                        continue
                    done.append(f"{hx(n)}:{mol}:{kk}:{num}:{scaled}:{int(a2)}")
    if rng.random() < 0.3:
        done.append(f"{hx('stranger')}:dna:21:0:1000:0")
    return (f"fromfile {int(rng.random() < 0.3)} P " + " ".join(hx(s) for s in strs) + " " + " ".join(ftoks) +
            " R " + " ".join(rows) + " A " + " ".join(done)).replace("  ", " ")


def rec_name(rng, f, i):
    """record names: plain, with a description, repeated, EMPTY (`>` alone), very long"""
    r = rng.random()
    if r < 0.08:
        return ""
    if r < 0.12:
        return "long " + "n" * rng.choice([300, 300, 3000])
    return rng.choice([f"r{i}", f"r{i} some description", "dup", f"s{f}_{i}|x"])


def _files(rng, kind, nmax=3, subdirs=True, stdin_ok=False):
    toks, used = [], set()
    pool = ["a.fa", "b.fasta", "in put.fa", "c", "d.fa"] + (["sub/e.fa"] if subdirs else [])
    for f in range(rng.choice(list(range(1, nmax + 1)))):
        fname = rng.choice(pool)
        if stdin_ok and "-" not in used and rng.random() < 0.02:        # (a child interpreter per such op: ~2 s)
            fname = "-"                                   # standard input
        if fname in used:
            continue
        used.add(fname)
        toks += ["F", "2d" if fname == "-" else hx(fname)]
        last = None
        for i in range(rng.choice([0, 1, 1, 2, 3])):
            name = rec_name(rng, f, i)
            seq = prot_record(rng, 4, 40) if kind == "protein" else dna_record(rng, 6, 60).replace("-", "N")
            if last and rng.random() < 0.15:
                name, seq = last                         # the same record twice (name and sequence)
            last = (name, seq)
            toks.append(hx(name) + ":" + hx(seq))
    return toks or ["F", hx("a.fa")]


def more_flags(rng, mode):
    """--license other than CC0, -f/--force, and an output file that exists before the command runs"""
    if rng.random() < 0.08:
        mode += "+lic"
    if ("+dir" in mode or "+cwd" in mode) and rng.random() < 0.3:
        mode += "+pre"
    if rng.random() < 0.15:
        mode += "+force"
    return mode


def _mode(rng, allow_merge_rand=True):
    mode = rng.choice(["file", "file", "first", "singleton", "merge"])
    if mode == "merge":
        mode = "merge:" + hx(rng.choice(["m", "my name", "s0"]))
    r = rng.random()
    if r < 0.2:
        mode += "+dir"
    elif r < 0.35:
        mode += "+cwd"
    elif r < 0.38:
        mode += "+newdir"
    if rng.random() < 0.15 and not mode.startswith("merge"):
        # --merge together with --check-sequence lets the ValueError of an invalid record escape as a traceback
        # (_compute_merged does not catch it, _compute_individual does): an observation outside the statement that the
        # model of the `sk` / `cmp` routes does not carry, so the combination is not generated there
        mode += "+check"
    return mode


def gen_sk(rng):
    """`sourmash sketch dna|protein|translate` through the command line (main(), in-process): general -p groups
    (several groups, repeated k, every molecule type of the subcommand, abund, seeds), file / first / singleton /
    merge, -o / --output-dir / cwd, --from-file, --check-sequence"""
    sub = rng.choice(["dna", "dna", "protein", "translate"])
    dm = "dna" if sub == "dna" else rng.choice(["protein", "dayhoff", "hp"])
    strs = []
    for _ in range(rng.choice([0, 1, 1, 2, 3])):
        if rng.random() < 0.08:
            strs.append(rng.choice(["k=21,foo", "num=5,scaled=10", "scaled=0", "num=-5", "k", "protein" if sub == "dna" else "dna"]))
        else:
            g, st = gen_group(rng, dm, fancy=False, zero_ok=False)
            strs.append(st or "k=5")
    mode = _mode(rng)
    if sub == "protein":
        mode = mode.replace("+check", "")            # `sketch protein` has no --check-sequence
    if rng.random() < 0.3 and not mode.startswith("merge") and any(f in mode for f in ("+dir", "+cwd")):
        # --from-file LIST: the list is read into a set, the order of the inputs is lost; only the per-file
        # layouts (sorted by output path here) do not depend on it
        mode += "+fromfile"
    if rng.random() < 0.1:
        mode += "+rand"
    mode = more_flags(rng, mode)
    # the subcommand as typed: `rna`, `nucleotide`, `nt` are declared aliases of `dna`; `aa`, `prot` of `protein`
    if sub == "dna":
        sub = rng.choice(["dna"] * 6 + ["rna", "rna", "nucleotide", "nt"])
    elif sub == "protein":
        sub = rng.choice(["protein"] * 4 + ["aa", "prot"])
    return (f"sk {sub} {dm} {mode} P " + " ".join(hx(x) for x in strs) + " " +
            " ".join(_files(rng, "protein" if sub in ("protein", "aa", "prot") else "dna", stdin_ok="+fromfile" not in mode))).replace("  ", " ")


def gen_cmp(rng):
    """the deprecated `sourmash compute` through the command line: -k list, --dna/--no-dna, --protein, --dayhoff,
    --hp, -n, --scaled (also 0.5 and 2.5), --track-abundance, --seed, --input-is-protein, and the file handling options"""
    inprot = int(rng.random() < 0.2)
    fl = [int(rng.random() < 0.7), int(rng.random() < 0.3), int(rng.random() < 0.2), int(rng.random() < 0.2)]
    if rng.random() < 0.7:
        ks = ",".join(str(3 * rng.randint(1, 7)) for _ in range(rng.randint(1, 3)))
    else:
        ks = ",".join(str(rng.choice([4, 5, 7, 21, 31])) for _ in range(rng.randint(1, 2)))
    num = rng.choice([500, 500, 0, 3, 20])
    sc = rng.choice(["0", "0", "1", "2", "10", "lt1", "frac", "1000"])
    mode = _mode(rng)
    if rng.random() < 0.15 and not mode.startswith("merge") and any(f in mode for f in ("+dir", "+cwd", "+newdir")):
        mode += "+rand"          # --randomize: only the per-file layouts are order-independent
    if "+rand" not in mode:
        mode = more_flags(rng, mode)         # (+pre names the FIRST listed input: not with a shuffled list)
    return (f"cmp {ks} {fl[0]} {fl[1]} {fl[2]} {fl[3]} {num} {sc} {int(rng.random() < 0.3)} {rng.choice([42, 42, 7])} {inprot} "
            f"{mode} " + " ".join(_files(rng, "protein" if inprot else "dna", stdin_ok=True)))


def gen_names(rng):
    """grouping / naming: 1-3 FASTA files (some empty, repeated record names, names with blanks), one of the
    four modes; file names are plain (they are created under a temp directory)"""
    mode = rng.choice(["file", "file", "first", "singleton", "merge"])
    if mode == "merge":
        mode = "merge:" + hx(rng.choice(["m", "my name", "x y  z", "s0"]))
    r = rng.random()
    if r < 0.2:
        mode += "+dir"
    elif r < 0.35:
        mode += "+cwd"
    elif r < 0.38:
        mode += "+newdir"            # --output-dir naming a directory that does not exist (known finding C14.2)
    if rng.random() < 0.15:
        mode += "+rand"
    if rng.random() < 0.2:
        mode += "+check"
    mode = more_flags(rng, mode)
    k = rng.choice([3, 5, 7])
    toks = []
    used = set()
    for f in range(rng.choice([1, 2, 2, 3])):
        fname = rng.choice(["a.fa", "b.fasta", "in put.fa", "c", "d.fa", "sub/e.fa", "sub/deep/f.fa"])
        if fname in used:
            continue
        used.add(fname)
        toks += ["F", hx(fname)]
        nrec = rng.choice([0, 1, 1, 2, 3])
        last = None
        for i in range(nrec):
            name, seq = rec_name(rng, f, i), dna_record(rng, 4, 40).replace("-", "N")
            if last and rng.random() < 0.15:
                name, seq = last
            last = (name, seq)
            toks.append(hx(name) + ":" + hx(seq))
    if not toks:
        toks = ["F", hx("a.fa")]
    return f"names {mode} {k} " + " ".join(toks)


def gen_case(rng, flavour):
    lines = []
    n = rng.randint(4, 10)
    for _ in range(n):
        r = rng.random()
        if flavour == "cli":
            if r < 0.45:
                lines.append(gen_sk(rng))
            elif r < 0.8:
                lines.append(gen_cmp(rng))
            else:
                lines.append(gen_fromfile(rng).replace("fromfile ", "fromfilecli ", 1))
            continue
        if flavour == "names":
            if r < 0.35:
                lines.append(gen_fromfile(rng))
            elif r < 0.85:
                lines.append(gen_names(rng))
            else:
                lines.append("setname " + hx(rng.choice(["-", "a.fa", "--", "- ", "x-"])) + " " +
                             rng.choice(["none", hx("nm"), hx("-"), "-"]))
            continue
        if flavour == "feed" and r < 0.7:
            l = gen_feed(rng)
            if l:
                lines.append(l)
                if rng.random() < 0.15:
                    lines.append("sigeq" + l[4:])          # the same tokens: == / != between the signatures
            continue
        cmd_mol = rng.choice(MOLS + ["dna", "-"])
        if flavour == "grammar" and rng.random() < 0.2:
            lines.append(gen_native(rng))
            continue
        if r < 0.25:
            s = rng.choice(INVALID) if rng.random() < 0.6 else gen_group(rng, "dna" if cmd_mol == "-" else cmd_mol)[1]
            lines.append("parse " + hx(s))
        elif r < 0.9:
            ng = rng.choice([0, 1, 1, 2, 3])
            strs = []
            for _ in range(ng):
                if rng.random() < 0.2:
                    strs.append(rng.choice(INVALID))
                else:
                    strs.append(gen_group(rng, "dna" if cmd_mol == "-" else cmd_mol, small=rng.random() < 0.5)[1])
                if rng.random() < 0.1:
                    strs[-1] = (strs[-1] + "," if strs[-1] else "") + rng.choice(MOLS)
            op = rng.choice(["factory", "first"])
            lines.append(f"{op} {cmd_mol} {rng.randint(0, 1)} " + " ".join(hx(s) for s in strs))
        else:
            ks = ",".join(str(3 * rng.randint(1, 17)) for _ in range(rng.randint(1, 3)))
            fl = [rng.randint(0, 1) for _ in range(4)]
            num, scaled = rng.choice([(0, rng.choice(SCALED_POOL)), (rng.choice([1, 5, 500]), 0), (0, 0),
                                      (500, rng.choice(SCALED_POOL))])
            lines.append(f"cp {ks} {rng.choice([0, 42, 2 ** 64 - 1])} {fl[0]} {fl[1]} {fl[2]} {fl[3]} {num} "
                         f"{rng.randint(0, 1)} {scaled}")
    return lines or ["parse " + hx("k=21")]


_MD5 = re.compile(r"MD5\{(\d+);([\d,]*)\}")
_BODY = re.compile(r"BODY\{([\d,=]*)\}")


def post_model(lines):
    """the model prints md5 pre-images and the hash/abundance listing of every fed sketch (it computes the
    hashes itself: C02's SeqToHashes model + Murmur3); apply the digests the adapter prints"""
    import hashlib
    import common

    def md5(m):
        mins = [int(x) for x in m.group(2).split(",")] if m.group(2) else []
        return common.md5_of_pre(int(m.group(1)), mins)

    def body(m):
        return hashlib.md5(m.group(1).encode()).hexdigest()[:12]
    out = []
    for l in lines:
        if "{" in l:
            l = _BODY.sub(body, _MD5.sub(md5, l))
        out.append(l)
    return out


# --------------------------------------------------------------------------
# oracle

PLAIN_ITEM = re.compile(r"^(k=\d+|num=\d+|scaled=\d+|seed=\d+|abund|noabund|dna|protein|dayhoff|hp)$")


def plain_reading(pstr, cmd_mol):
    """independent reading of a parameter string in the plain documented grammar;
    None when the string is outside it (then only the error/ok class is not predicted either)"""
    items = pstr.split(",")
    if not all(PLAIN_ITEM.match(i) for i in items):
        return None
    g = {"mol": None, "ks": [], "num": None, "scaled": None, "track": None, "seed": None}
    for i in items:
        if i in MOLS:
            g["mol"] = i
        elif i in ("abund", "noabund"):
            g["track"] = i == "abund"
        else:
            key, v = i.split("=")
            v = int(v)
            if key == "k":
                g["ks"].append(v)
            elif key == "num":
                if g["scaled"]:
                    return None
                g["num"], g["scaled"] = v, None
            elif key == "scaled":
                if g["num"]:
                    return None
                g["scaled"], g["num"] = v, None
            else:
                g["seed"] = v
    if cmd_mol == "dna" and g["mol"] not in (None, "dna"):
        return None
    if cmd_mol in ("protein", "dayhoff", "hp") and g["mol"] == "dna":
        return None
    if cmd_mol is None and g["mol"] is None:
        return None
    if (g["num"] == 0 and g["scaled"] is None) or (g["scaled"] == 0 and g["num"] is None):
        return None                                   # an always-empty sketch: no direct counterpart
    if any(k <= 0 or k * 3 >= 2 ** 32 for k in g["ks"]) or (g["num"] or 0) >= 2 ** 32 or \
            (g["scaled"] or 0) >= 2 ** 53 or (g["seed"] or 0) >= 2 ** 64:
        return None
    return g


HFN = {"dna": 1, "protein": 2, "dayhoff": 3, "hp": 4}


def _units(mode, files, flags=()):
    """(name, filename) of every signature set the documentation promises, in order; None = nothing promised"""
    if "pre" in flags and "force" not in flags and ("dir" in flags or "cwd" in flags) and not mode.startswith("merge"):
        files = files[1:]                      # "skipping - already done" unless -f
    files = [("" if f == "-" else f, recs) for f, recs in files]        # standard input has no file name
    if mode == "singleton":
        return [(n, f) for f, recs in files for n in recs]
    if mode == "first":
        return [(recs[0], f) for f, recs in files if recs]
    if mode == "file":
        return [("", f) for f, recs in files if recs]
    nm = unhx(mode.split(":")[1])
    return [(nm, None)] if any(recs for _, recs in files) else []


def _files_of(toks):
    files, cur = [], None
    for t in toks:
        if t == "F":
            cur = None
        elif cur is None:
            cur = (unhx(t), [])
            files.append(cur)
        else:
            cur[1].append(unhx(t.split(":")[0]))
    return files


def oracle(case, impl):
    """(op_index, signature, message)"""
    bad = []
    for idx, (op, obs) in enumerate(zip(case, impl)):
        w = op.split()
        if not w:
            continue
        if obs.startswith("view-mismatch"):
            # two routes to one fact about one object disagree, or an object handed out earlier changed later
            bad.append((idx, "C14:sketch:views-disagree", f"`{op[:100]}`: {obs[14:]}"))
            continue
        if w[0] == "sk" and w[1] in ("rna", "nucleotide", "nt", "aa", "prot") and obs == "err AttributeError":
            bad.append((idx, "C14:cli:alias-crashes", f"`sourmash sketch {w[1]}`, a declared alias of `sketch "
                             f"{'protein' if w[1] in ('aa', 'prot') else 'dna'}`, dies with AttributeError before sketching anything"))
            continue
        if w[0] in ("sk", "cmp", "names") and "lic" in (w[3] if w[0] == "sk" else w[11] if w[0] == "cmp" else w[1]).split("+")[1:]:
            if obs.startswith("ok"):
                bad.append((idx, "C14:cli:license-accepted", f"`{op[:80]}`: a --license other than CC0 was accepted: {obs[:120]}"))
            continue
        if w[0] == "sigeq" and obs.startswith("eq "):
            f = dict(t.split("=") for t in obs.split()[1:])
            n = int(f["n"])
            want = {"tt": "True", "ta": "True", "at": "True", "ne": "False",
                    "ae": "False" if n else "True", "te": "False" if n else "True"}
            wrong = {k2: f[k2] for k2 in want if f[k2] != want[k2]}
            if wrong:
                names = {"tt": "factory-built == factory-built (same records)", "ta": "factory-built == directly created (same records)",
                         "at": "directly created == factory-built (same records)", "ae": "EMPTY directly created == fed factory-built",
                         "te": "fed factory-built == unfed factory-built", "ne": "factory-built != factory-built (same records)"}
                bad.append((idx, "C14:sketch:signature-eq", "SourmashSignature.__eq__ with a tree-backed operand (what the sketch factory builds), "
                                 f"{n} hashes fed: " + "; ".join(f"{names[k2]} answered {v}, expected {want[k2]}" for k2, v in wrong.items())))
            continue
        if w[0] == "factory" and obs.startswith("ok"):
            # one signature per -p group (per k when split), one sketch per requested (k, moltype)
            cmd_mol = None if w[1] == "-" else w[1]
            split = w[2] == "1"
            strs = [unhx(t) for t in w[3:]]
            if not strs:
                continue
            rd = [plain_reading(s, cmd_mol) for s in strs]
            if any(r is None for r in rd):
                continue
            exp = []
            for g in rd:
                mol = g["mol"] or cmd_mol
                ks = g["ks"] or [DOC_DEFAULT_K[mol]]
                if g["num"] is not None:
                    num = g["num"]
                else:
                    num = 0
                seed = 42 if g["seed"] is None else g["seed"]
                recs = [(k * (1 if mol == "dna" else 3), HFN[mol], num, seed, int(bool(g["track"]))) for k in ks]
                if split:
                    exp += [[r] for r in recs]
                else:
                    exp.append(recs)
            got = []
            body = obs[3:]
            for sg in body.split(";"):
                rs = []
                for sk in sg.split("|"):
                    f = sk.split(":")
                    rs.append((int(f[0]), int(f[1]), int(f[2]), int(f[4]), int(f[5])))
                got.append(rs)
            if got != exp:
                bad.append((idx, "C14:sketch:wrong-sketch-set",
                            f"`{[s for s in strs]}` ({cmd_mol}, split={split}) built {got} but the specification asks for {exp}"))
        elif w[0] == "names" and obs.startswith("ok"):
            # the property's own reading of "per-record or merged, named from file or first record"
            mode = w[1].split("+")[0]
            oflags = w[1].split("+")[1:]
            files, cur = [], None
            for t in w[3:]:
                if t == "F":
                    cur = None
                elif cur is None:
                    cur = (unhx(t), [])
                    files.append(cur)
                else:
                    cur[1].append(unhx(t.split(":")[0]))
            got = [tuple(unhx(x) for x in g.split("|")[1:3]) for g in obs[3:].split(";")] if obs[3:] else []
            if any(f in oflags for f in ("dir", "cwd", "newdir")):
                # sorted by output path: compare as multisets
                exp = _units(mode, files, oflags)
                if sorted(got) != sorted((n, f) for n, f in exp):
                    bad.append((idx, "C14:sketch:wrong-names", f"`sketch` in mode {mode.split(':')[0]} {oflags} on files {files} wrote signatures "
                                                                f"(name, filename) = {sorted(got)}; the documentation promises {sorted(exp)}"))
                continue
            if mode == "singleton":
                exp = [(n, f) for f, recs in files for n in recs]
            elif mode == "first":
                exp = [(recs[0], f) for f, recs in files if recs]
            elif mode == "file":
                exp = [("", f) for f, recs in files if recs]
            else:
                nm = unhx(mode.split(":")[1])
                exp = [(nm, None)] if any(recs for _, recs in files) else []
            ok = len(got) == len(exp) and all(g[0] == e[0] and (e[1] is None or g[1] == e[1]) for g, e in zip(got, exp))
            if not ok:
                bad.append((idx, "C14:sketch:wrong-names", f"`sketch` in mode {mode.split(':')[0]} on files {files} wrote signatures (name, filename) = {got}; "
                                                            f"the documentation promises {exp}"))
        elif w[0] in ("sk", "cmp") and obs.startswith("ok"):
            # the command line: every unit (file / record / merged) carries one sketch per requested (k, moltype)
            if w[0] == "sk":
                dm = w[2]
                iF = w.index("F") if "F" in w else len(w)
                strs = [unhx(t) for t in w[5:iF]]
                rd = [plain_reading(x, dm) for x in strs] if strs else [{"mol": dm, "ks": [], "num": None, "scaled": None, "track": None, "seed": None}]
                if any(r is None for r in rd):
                    continue
                sk = []
                for g in rd:
                    mol = g["mol"] or dm
                    for k in (g["ks"] or [DOC_DEFAULT_K[mol]]):
                        sk.append((k * (1 if mol == "dna" else 3), HFN[mol]))
                mtok, ftoks = w[3], w[iF:]
            else:
                ks = [int(x) for x in w[1].split(",")]
                dna, pr, dy, hp, inprot = w[2] == "1", w[3] == "1", w[4] == "1", w[5] == "1", w[10] == "1"
                if inprot and dna:
                    dna, pr = False, True
                mols = [m for m, on in (("protein", pr), ("dayhoff", dy), ("hp", hp), ("dna", dna)) if on]
                sk = [(k, HFN[m]) for k in ks for m in mols]
                mtok, ftoks = w[11], w[12:]
            mode = mtok.split("+")[0]
            units = _units(mode, _files_of(ftoks), mtok.split("+")[1:])
            exp = sorted((n, f, k, h) for n, f in units for k, h in sk)
            got = []
            for g in [x for x in obs[3:].split(";") if x]:
                pth, n, f, prm = g.split("|")[:4]
                got.append((unhx(n), unhx(f), int(prm.split(":")[0]), int(prm.split(":")[1])))
            ok = len(got) == len(exp) and all(g[0] == e[0] and (e[1] is None or g[1] == e[1]) and g[2:] == e[2:]
                                              for g, e in zip(sorted(got, key=lambda x: (x[0], x[2], x[3], x[1])),
                                                              sorted(exp, key=lambda x: (x[0], x[2], x[3], x[1] or ""))))
            if not ok:
                bad.append((idx, "C14:cli:wrong-sketch-set", f"`{' '.join(w[:4])} ...` wrote (name, file, k, moltype) = {sorted(got)[:8]} but one sketch per "
                                 f"requested (k, moltype) for each of the units {units[:6]} is {exp[:8]}"))
        elif w[0] in ("fromfile", "fromfilecli") and (obs.startswith("ok") or obs.startswith("exit")):
            # built + already done + impossible = names x parameter sets; nothing twice, nothing lost
            toks = w[3:]
            def upto(ts, marks):
                i = 0
                while i < len(ts) and ts[i] not in marks:
                    i += 1
                return ts[:i], ts[i:]
            ps, rest = upto(toks, ("F", "R", "A"))
            ftoks, rest = upto(rest, ("R",))
            rtoks, rest = upto(rest[1:], ("A",))
            atoks = rest[1:]
            rd = [plain_reading(unhx(t), None) for t in ps]
            if not ps or any(r is None for r in rd):
                continue
            build = []
            for g in rd:
                num = g["num"] if g["num"] is not None else 0
                scaled = g["scaled"] if g["scaled"] is not None else (0 if g["num"] is not None else DOC_DEFAULT_SCALED[g["mol"]])
                for k in (g["ks"] or [DOC_DEFAULT_K[g["mol"]]]):
                    build.append((g["mol"], k, num, scaled, bool(g["track"]), 42 if g["seed"] is None else g["seed"]))
            nrec, cur = {}, None
            for t in ftoks:
                if t == "F":
                    cur = None
                elif cur is None:
                    cur = unhx(t)
                    nrec[cur] = 0
                else:
                    nrec[cur] += 1
            rows = [tuple(unhx(x) for x in t.split(":")) for t in rtoks]
            done = set()
            for t in atoks:
                n, mol, k, num, scaled, ab = t.split(":")
                done.add((unhx(n), mol, int(k), int(num), int(scaled), bool(int(ab))))
            names = [r[0] for r in rows]
            exp = None
            if any(b[5] != 42 for b in build) or "" in names or len(set(names)) != len(names):
                exp = "exit -1"
            else:
                built, missing = [], 0
                for n, gf, pf in rows:
                    for mol, k, num, scaled, tr, _ in build:
                        if (n, mol, k, num, scaled, tr) in done:
                            continue
                        f = gf if mol == "dna" else pf
                        if not f:
                            missing += 1
                        else:
                            built.append((n, f, k * (1 if mol == "dna" else 3), HFN[mol]))
                if missing and w[1] == "0":
                    exp = "exit -1"
                elif not built:
                    exp = "exit 0"
                elif any(gf and gf == pf for _, gf, pf in rows):
                    continue
                elif any(nrec.get(f, 0) == 0 for _, f, _, _ in built):
                    exp = "exit -1"
                else:
                    got = []
                    for g in ([x for x in obs[3:].split(";") if x] if obs.startswith("ok") else []):
                        n, f, prm = g.split("|")[:3]
                        got.append((unhx(n), unhx(f), int(prm.split(":")[0]), int(prm.split(":")[1])))
                    if sorted(got) != sorted(built):
                        bad.append((idx, "C14:sketch:fromfile-wrong-set", f"`sketch fromfile` wrote {sorted(got)} but names x parameter sets minus "
                                         f"already-done minus impossible is {sorted(built)}"))
                    continue
            if obs != exp:
                bad.append((idx, "C14:sketch:fromfile-wrong-exit", f"`sketch fromfile` ended with `{obs[:60]}`, the specification says `{exp}` for `{op[:100]}`"))
        elif w[0] == "names" and obs == "err FileNotFoundError" and "newdir" in w[1].split("+"):
            bad.append((idx, "C14:sketch:output-dir-not-created", "`sketch --output-dir DIR` with a DIR that does not exist sketches the first "
                             "input and then dies with FileNotFoundError when it writes the first signature file (the directory is never created)"))
        elif w[0] == "feed" and obs.startswith("feed F "):
            body = obs[len("feed F "):]
            fpart, _, dpart = body.partition(" D ")
            D = dpart.split() if dpart else []
            if fpart.startswith("err ") and any(d.startswith("Dexc:") for d in D):
                continue          # refused by the command and by MinHash() alike (patches/C14.1 applied)
            if fpart.startswith("err "):
                bad.append((idx, "C14:sketch:valid-spec-refused", f"a specification in the documented grammar was refused: {fpart} for `{op[:120]}`"))
                continue
            ferr = derr = None
            if fpart.startswith("FERR "):
                ferr, fpart = fpart[5:].strip(), " M "
            fs, _, ms = fpart.partition(" M ")
            F, M = fs.split(), ms.split()
            if D and D[-1].startswith("DERR:"):
                derr = D.pop()[5:]
            if any(d.startswith("Dexc:") for d in D):
                bad.append((idx, "C14:sketch:no-direct-sketch", f"the command accepts a specification ({op[:100]}) for which MinHash(...) itself refuses to create a sketch ({D})"))
                continue
            if (ferr or None) != (derr or None):
                bad.append((idx, "C14:sketch:error-differs", f"adding the records raised {ferr} on the factory's sketches and {derr} on the sketches created directly"))
                continue
            if ferr:
                continue          # the command aborts on this error: nothing else is observable
            if len(F) != len(D):
                bad.append((idx, "C14:sketch:wrong-sketch-count", f"{len(F)} sketches built, {len(D)} requested by `{op[:120]}`"))
                continue
            if any(d.startswith("Dexc:") for d in D):
                bad.append((idx, "C14:sketch:no-direct-sketch", f"the command accepts a specification ({op[:100]}) for which MinHash(...) itself refuses to create a sketch ({D})"))
                continue
            for i, (f, d) in enumerate(zip(F, D)):
                if f != d:
                    ff, dd = f.split(":"), d.split(":")
                    names = ["ksize", "moltype", "num", "max_hash", "seed", "track_abundance", "n_hashes", "md5", "hashes/abundances"]
                    which = [n for n, x, y in zip(names, ff, dd) if x != y]
                    bad.append((idx, "C14:sketch:factory-differs-from-direct:" + (which[0] if which else "?"),
                                f"sketch {i} built by the factory is {f} but MinHash(...) created directly and fed the same records is {d} (differs in {which})"))
            # the other exit (sig.minhash) must show the first sketch of each signature as the JSON writer does
            # signatures are not delimited in F; with split or single-k groups every signature has one sketch
            if len(M) == len(F):
                for i, (m, f) in enumerate(zip(M, F)):
                    if m != f:
                        bad.append((idx, "C14:sketch:minhash-exit-differs-from-json-exit",
                                    f"signature {i}: sig.minhash shows {m}, the JSON writer {f}"))
    return bad


def nontrivial(case, impl):
    """a feed op built at least one sketch holding >= 2 hashes, or >= 3 distinct ok observations"""
    for op, obs in zip(case, impl):
        if obs.startswith("feed F ") and not obs.startswith("feed F err"):
            for rec in obs[len("feed F "):].split(" M ")[0].split():
                f = rec.split(":")
                if len(f) >= 7 and f[6].isdigit() and int(f[6]) >= 2:
                    return True
    return len({o for o in impl if o.startswith("ok")}) >= 3
