"""The `json` correspondence stream (C09): build sketches and signatures through the Python API,
save them (plain / gzip, to string / file object), load them back through every transport
(str, bytes, gzip bytes, path, text / binary / gzip file objects) with and without
ksize / select_moltype filters, save again, pickle / copy / to_mutable / to_frozen every kind of
object; plus hand-crafted parsable-but-irregular documents and `_detect_input_type` probes.

Token syntax: see lean/SmVerif/Model/DriverJson.lean.

NUL is excluded from generated names in the `round` flavour: a Python string crosses the FFI as a C
string and is cut at its first NUL (modelled as `cstr`; exercised in the `odd` flavour, where the
oracle does not apply).  Lone surrogates are not Unicode scalar values and cannot be encoded at all.
"""
import os
import sys

sys.path.insert(0, os.path.dirname(os.path.dirname(os.path.abspath(__file__))))
import common  # noqa: E402

U64 = 2 ** 64 - 1
U32 = 2 ** 32 - 1
MODULE = "json"
ADAPTER = "json_impl.py"
LIT = "sourmash_signature"
MOL = {1: "DNA", 2: "protein", 3: "dayhoff", 4: "hp"}


def xs(s):
    return "x" + s.encode("utf-8").hex()


def unx(t):
    return bytes.fromhex(t[1:]).decode("utf-8")


def mh_for_scaled(s):
    if s == 0:
        return 0
    if s == 1:
        return U64
    return int(2.0 ** 64 / float(s))


# ---------------------------------------------------------------------------
# generators

NAME_ALPHABETS = [
    "abcXYZ019 _-./",
    "\"',;:\\/\n\r\t{}[]",
    "\x01\x02\x08\x0b\x0c\x1b\x1f\x7f\x80\x9f",
    "äéñøüßÆ¿",
    "אבגדהש‏‮‬ְ",            # Hebrew + RTL marks + a point
    "العربية؜ـ",
    "漢字かなカナ한국",
    "\U0001F600\U0001F9EC\U00010000\U0010FFFF\U0001F468‍\U0001F469",   # astral planes, ZWJ
    "éä⃝️",                                         # combining
    "  ﻿�￾ 　",                        # separators, BOM, noncharacters
]


def gen_name(rng, allow_nul=False):
    r = rng.random()
    if r < 0.08:
        return ""
    if r < 0.12:
        return " "
    if r < 0.16:
        return rng.choice(["a_" + LIT, LIT, LIT + "s", "x" + LIT[:-1]])
    if r < 0.19:
        return "n" * rng.choice([255, 256, 1000, 4096])
    n = rng.randint(1, 24)
    alph = rng.choice(NAME_ALPHABETS) if rng.random() < 0.6 else "".join(NAME_ALPHABETS)
    s = "".join(rng.choice(alph) for _ in range(n))
    if allow_nul and rng.random() < 0.5:
        i = rng.randint(0, len(s))
        s = s[:i] + "\x00" + s[i:]
    return s


K_POOL = {1: [1, 2, 4, 21, 21, 31, 31, 51, 1000, U32],
          2: [1, 7, 7, 10, 11, U32 // 3],
          3: [1, 7, 15, 16, 19, U32 // 3],
          4: [1, 7, 20, 30, 42, U32 // 3]}
SEED_POOL = [42, 42, 42, 0, 1, 43, 2 ** 32, 2 ** 63, U64]
SCALED_POOL = [1, 1, 2, 3, 10, 100, 1000, 1000, 10000, 2 ** 20, 2 ** 31, 93, 99]
NUM_POOL = [1, 2, 5, 20, 500, 1000, U32]
ABUND_POOL = [1, 1, 1, 2, 3, 7, 255, 256, 2 ** 32, 2 ** 32 - 1, 2 ** 63, U64, U64 - 1]


def gen_sketch_params(rng, max_size):
    hf = rng.choice([1, 1, 2, 3, 4])
    k = rng.choice(K_POOL[hf])
    seed = rng.choice(SEED_POOL)
    is_num = rng.random() < 0.3
    num = rng.choice(NUM_POOL) if is_num else 0
    scaled = 0 if is_num else rng.choice(SCALED_POOL)
    track = rng.random() < 0.5
    M = mh_for_scaled(scaled) if scaled else U64
    r = rng.random()
    if r < 0.12:
        size = 0
    elif r < 0.25:
        size = 1
    elif r < 0.8:
        size = rng.randint(2, min(40, max_size))
    else:
        size = rng.randint(2, max_size)
    if is_num:
        size = min(size, num)
    keys = set()
    cands = [0, 1, M, M - 1, M // 2, 2 ** 63 - 1, 2 ** 63, 2 ** 53, 2 ** 53 + 1, 2 ** 32, U64, U64 - 1]
    cands = [c for c in cands if 0 <= c <= M]
    tries = 0
    while len(keys) < size and tries < size * 4 + 20:
        tries += 1
        if rng.random() < 0.25:
            keys.add(rng.choice(cands))
        else:
            keys.add(rng.randint(0, M))
    keys = list(keys)
    rng.shuffle(keys)
    ps = [(h, rng.choice(ABUND_POOL) if track else 1) for h in keys]
    return hf, k, seed, num, scaled, track, ps


def mh_line(r, p):
    hf, k, seed, num, scaled, track, ps = p
    return f"mh {r} {hf} {k} {seed} {num} {scaled} {int(track)}" + "".join(f" {h}:{a}" for h, a in ps)


VIAS = ["str", "bytes", "gz", "path", "path", "ftext", "fbin", "fgz", "ftexttmp"]


def gen_round(rng, max_size=300):
    lines = []
    n = rng.choice([1, 1, 2, 3, 4, 5])
    params = []
    for i in range(n):
        if i > 0 and rng.random() < 0.3:
            p = params[rng.randrange(len(params))]          # same sketch under another name
        else:
            p = gen_sketch_params(rng, max_size)
        params.append(p)
        lines.append(mh_line(i, p))
        lines.append(f"sig {10 + i} {i} {xs(gen_name(rng))} {xs(gen_name(rng))}")
    c = rng.choice([0, 0, 1, 2, 3, 4, 5, 6, 7, 8, 9, 9])
    fp = rng.choice([0, 0, 1] if c else [0, 1, 2])
    sigs = [10 + i for i in range(n)]
    if rng.random() < 0.3:
        rng.shuffle(sigs)
    if rng.random() < 0.15:
        sigs.append(rng.choice(sigs))          # the same OBJECT twice in one file
    lines.append(f"save 0 {c} {fp} " + " ".join(map(str, sigs)))
    via = rng.choice(VIAS)
    lit = 1 if (via == "path" and rng.random() < 0.06) else 0
    lines.append(f"load 100 0 {via} - - {lit} 1")
    # filters: the k / moltype values present, as the user sees them, as stored, and absent ones
    ks_user = sorted({p[1] for p in params})
    ks_raw = sorted({p[1] * (1 if p[0] == 1 else 3) for p in params})
    mols = sorted({MOL[p[0]] for p in params})
    for j in range(rng.randint(1, 3)):
        r = rng.random()
        k = "-"
        m = "-"
        if r < 0.4:
            k = str(rng.choice(ks_user + ks_raw + [0, 21, 22]))
        elif r < 0.7:
            m = rng.choice(mols + ["DNA", "protein", "dayhoff", "hp"])
            m = xs(rng.choice([m, m.lower(), m.upper(), m.capitalize()]))
        else:
            k = str(rng.choice(ks_user + ks_raw))
            m = xs(rng.choice(mols + ["dna", "PROTEIN"]))
        lines.append(f"load {120 + 10 * j} 0 {rng.choice(VIAS)} {k} {m} 0 {rng.randint(0, 1)}")
    # write the loaded signatures again
    c2 = rng.choice([0, 0, 3, 9])
    lines.append(f"save 1 {c2} 0 " + " ".join(str(100 + i) for i in range(len(sigs))))
    if rng.random() < 0.5:
        lines.append(f"load 160 1 {rng.choice(VIAS)} - - 0 1")
    # pickling / copying every kind of object
    h = rng.randrange(n)
    kinds = [("pickle", h), ("copy", h), ("tomut", h), ("tofrozen", h),             # MinHash
             ("pickle", 10 + h), ("copy", 10 + h), ("tomut", 10 + h), ("tofrozen", 10 + h),   # SourmashSignature
             ("pickle", 100 + h), ("copy", 100 + h), ("tomut", 100 + h), ("tofrozen", 100 + h)]  # Frozen...
    rng.shuffle(kinds)
    r = 200
    for op, src in kinds[:rng.randint(2, 6)]:
        lines.append(f"{op} {r} {src}")
        r += 1
    lines.append(f"getmh {r} {100 + h}")
    g = r
    r += 1
    for op in rng.sample(["pickle", "copy", "tomut", "tofrozen"], 2):
        lines.append(f"{op} {r} {g}")
        r += 1
    if rng.random() < 0.3:
        # second generation: save what came out of pickling / copying
        lines.append(f"sig {r} {g} {xs(gen_name(rng))} {xs(gen_name(rng))}")
        lines.append(f"save 2 {rng.choice([0, 5])} 0 {r}")
        lines.append(f"load {r + 1} 2 {rng.choice(VIAS)} - - 0 1")
    # equality of what was saved and what was loaded (and of unrelated objects)
    for _ in range(rng.randint(1, 3)):
        i, j = rng.randrange(n), rng.randrange(n)
        kind = rng.random()
        if kind < 0.5:
            lines.append(f"eq {10 + sigs[i] - 10} {100 + sigs.index(sigs[i])}")      # saved vs loaded at the same position
        elif kind < 0.75:
            lines.append(f"eq {10 + i} {100 + j}")
        else:
            lines.append(f"eq {i} {j}")                                               # two MinHash objects
    lines.append(f"eq {g} {h}")                                                       # frozen sketch of the loaded sig vs the original
    if rng.random() < 0.5:
        lines.append(f"update 260 {100 + h}")
    if rng.random() < 0.4:
        one = rng.random() < 0.5 and n > 1
        k = "-" if not one else str(params[h][1] * (1 if params[h][0] == 1 else 3))
        mo = "-"
        if rng.random() < 0.5:
            mo = xs(rng.choice([MOL[params[h][0]], "DNA", "protein"]))
        lines.append(f"loadone 270 0 {rng.choice(VIAS)} {k} {mo}")
    if rng.random() < 0.35:
        # ONE signature with several sketches (from_params), saved, loaded, copied, pickled
        ks = rng.choice(["21,31", "21,31,51", "31", "4,5"])
        is_num = rng.random() < 0.3
        lines.append(f"params 30 {0 if is_num else rng.choice([1, 1000])} {rng.choice([1, 500]) if is_num else 0} "
                     f"{rng.randint(0, 1)} {rng.choice([42, 0, 43])} {ks}")
        lines.append("save 3 0 0 30")
        lines.append(f"load 280 3 {rng.choice(VIAS)} - - 0 1")
        lines.append(rng.choice(["eqp 30 30", "eqp 30 280", "eqp 280 30"]))
        for op in rng.sample(["copy", "pickle", "tomut", "tofrozen"], 2):
            lines.append(f"{op} {rng.randint(31, 39)} 30")
    lines.append("recheck")
    return lines


def gen_cli(rng):
    """the command-line routes that load and re-save: `sig cat`, `sig rename`, `sig split`; and `sig describe`"""
    lines = []
    n = rng.choice([1, 2, 3, 4])
    for i in range(n):
        p = gen_sketch_params(rng, 30)
        lines.append(mh_line(i, p))
        # (`sig split` puts the basename of the filename field into the name of the file it writes:
        #  keep it short enough for a directory entry)
        lines.append(f"sig {10 + i} {i} {xs(gen_name(rng))} {xs(gen_name(rng)[:40])}")
    lines.append(f"save 0 {rng.choice([0, 0, 1, 9])} {rng.choice([0, 1])} " + " ".join(str(10 + i) for i in range(n)))
    lines.append("cli cat 1 0")
    newname = gen_name(rng)
    while newname.startswith("-"):
        newname = "x" + newname
    lines.append(f"cli rename 2 0 {xs(newname)}")
    lines.append("cli describe 0")
    lines.append("cli split 0")
    lines.append(f"load 100 1 {rng.choice(VIAS)} - - 0 1")
    lines.append(f"load 120 2 {rng.choice(VIAS)} - - 0 1")
    if rng.random() < 0.5:
        lines.append("cli cat 3 2")
        lines.append("cli describe 2")
    lines.append(f"eq {10} {100}")
    lines.append("recheck")
    return lines


def fld(rng, val, p_absent=0.0, p_null=0.0, p_bad=0.0):
    r = rng.random()
    if r < p_absent:
        return "-"
    if r < p_absent + p_null:
        return "~"
    if r < p_absent + p_null + p_bad:
        return "!"
    return val


def sk_tokens(rng, heavy):
    """one sketch record, irregular with probability `heavy` per aspect"""
    hf = rng.choice([1, 1, 2, 3, 4])
    k = rng.choice(K_POOL[hf]) * (1 if hf == 1 else 3)
    if hf != 1 and rng.random() < heavy * 0.3:
        k = rng.choice([20, 22, 1, 2])                       # not divisible by 3
    if rng.random() < heavy * 0.1:
        k = rng.choice([U32, U32 + 1])
    seed = rng.choice(SEED_POOL + ([U64 + 1] if rng.random() < heavy * 0.2 else []))
    is_num = rng.random() < 0.3
    num = rng.choice(NUM_POOL) if is_num else 0
    mx = 0 if is_num else rng.choice([mh_for_scaled(s) for s in SCALED_POOL] + ([1000, 12345, 2 ** 63] if rng.random() < heavy else []))
    if rng.random() < heavy * 0.3:
        num = rng.choice([0, 500, U32, U32 + 1])             # both set / both zero / out of range
    size = rng.choice([0, 1, 2, 3, 5, 8, 20])
    M = mx if mx else U64
    mins = sorted({rng.choice([0, 1, M, M // 2, rng.randint(0, M)]) for _ in range(size)})
    if rng.random() < heavy * 0.6 and len(mins) >= 2:
        rng.shuffle(mins)                                      # unsorted
    if rng.random() < heavy * 0.4 and mins:
        mins.insert(rng.randrange(len(mins) + 1), rng.choice(mins))   # duplicate
    if rng.random() < heavy * 0.2:
        mins.append(rng.choice([M + 1, U64, U64 + 1]))         # above the threshold / out of u64
    track = rng.random() < 0.5
    ab = [rng.choice(ABUND_POOL + ([0] if rng.random() < heavy else [])) for _ in mins]
    if track and rng.random() < heavy * 0.3:
        ab = ab[:-1] if (ab and rng.random() < 0.5) else ab + [9]      # length mismatch
    if track and rng.random() < heavy * 0.1:
        ab.append(U64 + 1)
    r = rng.random()
    good_pre = (k, sorted(mins))
    if r < 1 - heavy * 0.7:
        md5 = f"P{k}:" + ",".join(map(str, sorted(mins)))     # the right md5
    elif r < 1 - heavy * 0.45:
        md5 = f"P{k}:" + ",".join(map(str, mins))             # md5 of the order in the file
    elif r < 1 - heavy * 0.25:
        md5 = f"P{k + 1}:" + ",".join(map(str, sorted(mins)))  # md5 of something else
    elif r < 1 - heavy * 0.1:
        md5 = "R" + rng.choice(["", "deadbeef", "not an md5", "00" * 16, "é\U0001F600", LIT]).encode("utf-8").hex()
    else:
        md5 = "P21:"
    mol = MOL[hf]
    if rng.random() < heavy * 0.5:
        mol = rng.choice([mol.upper(), mol.lower(), mol.capitalize(), mol.swapcase()])
    if rng.random() < heavy * 0.12:
        mol = rng.choice(["rna", "", "DNA ", "protıen", "PROTEİN", "K", "dna\x00"])
    toks = [
        "num=" + fld(rng, str(num), heavy * 0.04, heavy * 0.03, heavy * 0.03),
        "ksize=" + fld(rng, str(k), heavy * 0.04, heavy * 0.03, heavy * 0.03),
        "seed=" + fld(rng, str(seed), heavy * 0.04, heavy * 0.03, heavy * 0.03),
        "mh=" + fld(rng, str(mx), heavy * 0.04, heavy * 0.03, heavy * 0.03),
        "mins=" + fld(rng, ",".join(map(str, mins)), heavy * 0.04, heavy * 0.03, heavy * 0.03),
        "md5=" + fld(rng, md5, heavy * 0.04, heavy * 0.03, heavy * 0.03),
        "ab=" + (fld(rng, ",".join(map(str, ab)), 0.0, heavy * 0.2, heavy * 0.05) if track else fld(rng, "-", 0, heavy * 0.3, 0)),
        "mol=" + fld(rng, xs(mol), heavy * 0.04, heavy * 0.03, heavy * 0.03),
    ]
    _ = good_pre
    return ["K"] + toks


VER_POOL = ["0.4", "0.4", "0.3", "0.5", "1.0", "2.5", "0.1", "123.25", "0.30000000000000004"]   # tokens that ryu writes back unchanged


def gen_odd(rng):
    """hand-crafted, parsable documents: irregular but accepted, or refused"""
    heavy = rng.choice([0.15, 0.4, 0.4, 0.8])
    n = rng.choice([1, 1, 2, 3])
    toks = []
    for _ in range(n):
        cls = LIT if rng.random() > heavy * 0.3 else rng.choice(["", "x", "Sourmash_Signature", LIT + "2"])
        name = gen_name(rng, allow_nul=True)
        fn = gen_name(rng, allow_nul=True)
        lic = "CC0" if rng.random() > heavy * 0.5 else rng.choice(["CC-BY", "MIT", "", "cc0", "© 2020"])
        nsk = rng.choice([1, 1, 1, 2, 3, 0])
        toks += ["S",
                 "cls=" + fld(rng, xs(cls), heavy * 0.1, heavy * 0.04, heavy * 0.03),
                 "email=" + fld(rng, xs(rng.choice(["", "a@b.c"])), heavy * 0.3, heavy * 0.04, heavy * 0.03),
                 "hf=" + fld(rng, xs(rng.choice(["0.murmur64", "0.murmur64", "other"])), heavy * 0.06, heavy * 0.04, heavy * 0.03),
                 "fn=" + fld(rng, xs(fn), 0.15, 0.15, heavy * 0.03),
                 "name=" + fld(rng, xs(name), 0.15, 0.1, heavy * 0.03),
                 "lic=" + fld(rng, xs(lic), heavy * 0.3, heavy * 0.04, heavy * 0.03),
                 "ver=" + fld(rng, xs(rng.choice(VER_POOL)), heavy * 0.3, heavy * 0.04, heavy * 0.03)]
        r = rng.random()
        if r < heavy * 0.05:
            toks.append("nsk=-")
        elif r < heavy * 0.09:
            toks.append("nsk=~")
        elif r < heavy * 0.12:
            toks.append("nsk=!")
        else:
            toks.append(f"nsk={nsk}")
            for _ in range(nsk):
                toks += sk_tokens(rng, heavy)
    d = rng.choice([3, 4])                   # odd handle: raw UTF-8 text, even: \\u escapes
    lines = [f"doc {d} {n} " + " ".join(toks)]
    lines.append(f"load 100 {d} {rng.choice(VIAS)} - - 0 1")
    if rng.random() < 0.5:
        lines.append(f"load 130 {d} {rng.choice(VIAS)} - - 0 0")
    if rng.random() < 0.5:
        k = rng.choice(["-", "21", "63", "7", "0"])
        m = rng.choice(["-", xs("DNA"), xs("protein"), xs("Hp"), xs("rna"), xs("dayhoff\x00x"), xs("")])
        lines.append(f"load 160 {d} {rng.choice(VIAS)} {k} {m} 0 {rng.randint(0, 1)}")
    lines.append("save 5 0 0 100")
    lines.append("save 6 4 0 100 101")
    lines.append(f"load 200 5 {rng.choice(VIAS)} - - 0 1")
    lines.append("save 7 0 0 200")
    for op in rng.sample(["pickle", "copy", "tomut", "tofrozen", "getmh"], 3):
        lines.append(f"{op} {rng.randint(220, 230)} 100")
    lines.append("getmh 240 100")
    for op in rng.sample(["pickle", "copy", "tomut", "tofrozen"], 2):
        lines.append(f"{op} {rng.randint(241, 250)} 240")
    if rng.random() < 0.5:
        lines.append(f"loadone 255 {d} {rng.choice(VIAS)} - -")
    lines.append("eq 100 200")
    lines.append("recheck")
    return lines


def gen_sniff(rng):
    lines = []
    for _ in range(rng.randint(4, 12)):
        kind = rng.choice(["str", "str", "str", "bytes", "bytes", "file", "other"])
        r = rng.random()
        ex = 0
        if kind in ("file", "other"):
            lines.append(f"sniff {kind} h{b'[]'.hex()} {rng.randint(0, 1)}")
            continue
        if r < 0.12:
            # Python white space (str.isspace) before the bracket; other characters before it
            pre = "".join(rng.choice("\t\n\x0b\x0c\r\x1c\x1d\x1e\x1f \x85\xa0\u1680\u2000\u200a\u2028\u2029\u202f\u205f\u3000"
                                     "\x00\x1b\u200b\ufeffa") for _ in range(rng.randint(1, 3)))
            s = pre + rng.choice(["[", "[ ", "{", ""]) + rng.choice(["x", "", "{\"class\":\""]) + LIT
            b = s.encode("utf-8")
        elif r < 0.25:
            s = rng.choice([LIT, "a" + LIT, "[" + LIT, LIT + "x", "", "[]", "[{\"class\":\"" + LIT + "\"}]",
                            "  [{\"class\": \"" + LIT + "\"", LIT[:-1], LIT[1:], "x" * 17 + LIT, "é" + LIT])
            b = s.encode("utf-8")
        elif r < 0.45:
            # a plausible file name (may exist): no '/', no NUL
            s = rng.choice(["a.sig", "my_" + LIT + ".sig", LIT + ".sig", "x.sig.gz", "é\U0001F600.sig", LIT])
            b = s.encode("utf-8")
            ex = rng.randint(0, 1)
        elif r < 0.65 and kind == "bytes":
            b = rng.choice([b"\x1f\x8b", b"\x1f\x8b\x08\x00", b"\x1f", b"\x8b\x1f", b"\x00\x1f\x8b", b"\xff\xfe",
                            b"\x1f\x8b" + LIT.encode(), b"\x1f" + LIT.encode()])
        else:
            s = gen_name(rng)
            if rng.random() < 0.3:
                i = rng.randint(0, len(s))
                s = s[:i] + LIT + s[i:]
            b = s.encode("utf-8")
        if not ex:
            # `ex = 0` promises that no such file exists ("/", ".", " " ... may)
            try:
                if os.path.exists(b.decode("utf-8") if kind == "str" else b):
                    continue
            except (ValueError, TypeError):
                pass
        lines.append(f"sniff {kind} h{b.hex()} {ex}")
    return lines



# ---------------------------------------------------------------------------
# texts: what serde_json accepts / refuses, in which order (flavour `text`), and compressed or
# mislabelled bytes (flavour `blob`)

import bz2 as _bz2
import gzip as _gzip
import json as _json
import lzma as _lzma


def _jstr(s):
    return _json.dumps(s, ensure_ascii=False)


def _sk_members(rng, heavy):
    hf = rng.choice([1, 1, 2, 3, 4])
    k = rng.choice([21, 31, 7, 10]) * (1 if hf == 1 else 3)
    is_num = rng.random() < 0.3
    mx = 0 if is_num else rng.choice([U64, mh_for_scaled(1000), mh_for_scaled(2)])
    num = rng.choice([5, 500]) if is_num else 0
    M = mx if mx else U64
    mins = sorted({rng.choice([0, 1, M, M // 2, rng.randint(0, M)]) for _ in range(rng.choice([0, 1, 2, 5, 12]))})
    if rng.random() < heavy * 0.3:
        rng.shuffle(mins)
    track = rng.random() < 0.5
    mol = MOL[hf]
    if rng.random() < heavy * 0.25:
        mol = rng.choice(["rna", "RNA", "dna ", ""])            # panics when reached
    elif rng.random() < 0.3:
        mol = rng.choice([mol.upper(), mol.lower()])
    mem = [("num", str(num)), ("ksize", str(k)), ("seed", str(rng.choice([42, 0, U64]))), ("max_hash", str(mx)),
           ("mins", "[" + ",".join(map(str, mins)) + "]"),
           ("md5sum", _jstr(rng.choice(["x", "", "0" * 32, "é"])))]
    if track:
        mem.append(("abundances", "[" + ",".join(str(rng.choice(ABUND_POOL)) for _ in mins) + "]"))
    mem.append(("molecule", _jstr(mol)))
    return mem


BAD_NUMS = ["18446744073709551616", "-1", "-0", "1.0", "1e2", "01", "+1", "1.", ".5", "1e", "0x10", "1.5e+3", "4294967296",
            "99999999999999999999999", "true", "null", '"7"', "[1]", "{}"]
ESC_STRS = ['"\\u00e9"', '"\\u00E9\\u0041"', '"\\ud83d\\ude00"', '"\\uD83D\\uDE00x"', '"\\ud83d"', '"\\ude00"', '"\\ud83d\\u0041"',
            '"\\ud83dx"', '"\\/\\b\\f\\n\\r\\t\\"\\\\"', '"\\x41"', '"\\u00e"', '"\\u00g0"', '"a\x01b"', '"a\tb"', '"a\x7fb"',
            '"\\u0000"', '"\\u001f\\u0020"', '"  "', '"\U0001F600"', '"\\"', '"unterminated', '"a\\', "'single'",
            '"sourmash_signature"', '" "', '""']


def _nest(rng, n):
    """a value nested n levels"""
    o, c = ("[", "]") if rng.random() < 0.7 else ('{"a":', "}")
    return o * n + rng.choice(["1", "null", '"x"', "[]"]) + c * n


def _obj(members):
    return "{" + ",".join(_jstr(k) + ":" + v for k, v in members) + "}"


def gen_text(rng):
    heavy = rng.choice([0.0, 0.3, 0.6, 1.0])
    nsig = rng.choice([1, 1, 2, 3])
    sig_texts = []
    for _ in range(nsig):
        sks = []
        for _ in range(rng.choice([1, 1, 2, 3, 0])):
            mem = _sk_members(rng, heavy)
            r = rng.random()
            if r < heavy * 0.12:                                   # a HyperLogLog sketch
                mem = [("registers", "[" + ",".join(str(rng.choice([0, 1, 255, 256])) for _ in range(rng.randint(0, 4))) + "]"),
                       ("p", str(rng.choice([2, 14, -1]))), ("q", "62"), ("ksize", rng.choice(["21", "18446744073709551616"]))]
                if rng.random() < 0.3:
                    mem.pop(rng.randrange(len(mem)))
            if rng.random() < heavy * 0.3:                         # damage to members
                op = rng.choice(["dup", "drop", "shuffle", "badnum", "unknown", "deep", "nullify", "dupunknown"])
                if op == "dup" and mem:
                    mem.insert(rng.randrange(len(mem) + 1), rng.choice(mem))
                elif op == "drop" and mem:
                    mem.pop(rng.randrange(len(mem)))
                elif op == "shuffle":
                    rng.shuffle(mem)
                elif op == "badnum" and mem:
                    i = rng.randrange(len(mem))
                    kk, vv = mem[i]
                    if vv.startswith("["):
                        mem[i] = (kk, "[" + rng.choice(BAD_NUMS) + "]")
                    else:
                        mem[i] = (kk, rng.choice(BAD_NUMS))
                elif op == "unknown":
                    mem.insert(rng.randrange(len(mem) + 1), ("foo", rng.choice(["1", "null", '{"a":[1,{"b":null}]}', "[[]]"])))
                elif op == "deep":
                    mem.insert(rng.randrange(len(mem) + 1), ("foo", _nest(rng, rng.choice([1, 100, 122, 123, 124, 125, 200]))))
                elif op == "nullify" and mem:
                    i = rng.randrange(len(mem))
                    mem[i] = (mem[i][0], "null")
                elif op == "dupunknown":
                    mem += [("zz", "1"), ("zz", "2")]
            if rng.random() < heavy * 0.08:                        # sequence form of the record
                sks.append("[" + ",".join(v for _, v in mem) + "]")
            elif rng.random() < heavy * 0.05:
                sks.append(rng.choice(["null", "5", '"x"', "[]", "{}"]))
            else:
                sks.append(_obj(mem))
        name = rng.choice(ESC_STRS) if rng.random() < 0.4 + heavy * 0.3 else _jstr(gen_name(rng))
        mem = [("class", _jstr(LIT if rng.random() > heavy * 0.1 else "x")), ("email", '""'),
               ("hash_function", '"0.murmur64"'), ("filename", rng.choice(["null", _jstr(gen_name(rng))])),
               ("name", name), ("license", '"CC0"'), ("signatures", "[" + ",".join(sks) + "]"),
               ("version", rng.choice(["0.4", "0.4", "0.3", "1.0", "1", "2", "10", "0.5"]))]
        if rng.random() < 0.3:
            mem = [m for m in mem if m[0] not in rng.sample(["class", "email", "filename", "name", "license", "version"], 2)]
        if rng.random() < heavy * 0.5:
            op = rng.choice(["dup", "drop", "shuffle", "badtype", "unknown", "deep", "dupunknown", "null"])
            if op == "dup":
                mem.insert(rng.randrange(len(mem) + 1), rng.choice(mem))
            elif op == "drop":
                mem.pop(rng.randrange(len(mem)))
            elif op == "shuffle":
                rng.shuffle(mem)
            elif op == "badtype":
                i = rng.randrange(len(mem))
                mem[i] = (mem[i][0], rng.choice(["5", "true", "[]", "{}", '"s"', "1e999" if mem[i][0] != "version" else "true"]))
            elif op == "unknown":
                mem.insert(rng.randrange(len(mem) + 1), ("comment", rng.choice(['"' + LIT + '"', "[1,2,{}]", "1.5e3"])))
            elif op == "deep":
                mem.insert(rng.randrange(len(mem) + 1), ("deep", _nest(rng, rng.choice([100, 127, 128, 300]))))
            elif op == "dupunknown":
                mem += [("zz", "1"), ("zz", '"' + LIT + '"')]
            elif op == "null":
                i = rng.randrange(len(mem))
                mem[i] = (mem[i][0], "null")
        if rng.random() < heavy * 0.06:
            vals = [v for _, v in mem]
            sig_texts.append("[" + ",".join(vals[:rng.choice([len(vals), len(vals), 7, 6, 3])] + (["1"] if rng.random() < 0.2 else [])) + "]")
        else:
            sig_texts.append(_obj(mem))
    text = "[" + ",".join(sig_texts) + "]"
    # damage to the text as a whole
    r = rng.random()
    if r < heavy * 0.15:
        text = text[:rng.randint(0, len(text))]                   # truncation
    elif r < heavy * 0.25:
        i = rng.randint(0, len(text))
        text = text[:i] + rng.choice(["@", ",", "]", "}", '"', ":", " ", "\n", "\\", "\x00", "null", "1"]) + text[i:]
    elif r < heavy * 0.32:
        text = text + rng.choice([" ", "\n\t ", "x", "]", "[]", ","])
    elif r < heavy * 0.36:
        text = rng.choice(["﻿", " ", "\n", "\x0b"]) + text
    elif r < heavy * 0.40:
        text = text[1:-1] if rng.random() < 0.5 else "{" + _jstr("sigs") + ":" + text + "}"
    elif r < heavy * 0.45:
        text = text.replace(",", " ,\n").replace(":", " :\t").replace("[", "[ ").replace("]", "\r]")
    if LIT not in text and rng.random() < 0.7:
        # keep the Python-level sniff out of the way (it wants the literal somewhere after position 0)
        text = text + (" " if not text.endswith(" ") else "") if False else text
    b = text.encode("utf-8")
    d = 8
    lines = [f"blob {d} h{b.hex()} - -"]
    vias = ["str", "bytes", "gz", "path", "fbin", "ftext", "fgz", "ftexttmp"]
    lines.append(f"load 100 {d} {rng.choice(vias)} - - 0 1")
    lines.append(f"load 140 {d} {rng.choice(vias)} - - 0 0")
    if rng.random() < 0.3:
        lines.append(f"load 180 {d} {rng.choice(vias)} {rng.choice(['21', '63', '0'])} {rng.choice(['-', xs('DNA'), xs('protein'), xs('rna')])} 0 1")
    lines.append("save 5 0 0 100")
    lines.append("save 6 0 0 100 101")
    lines.append("show 100")
    lines.append("recheck")
    return lines


def _gunzip(b):
    """what a (multi-member) gzip reader delivers for these bytes: (bytes, fails)"""
    import zlib
    out = b""
    data = b
    while data:
        d = zlib.decompressobj(16 + zlib.MAX_WBITS)
        try:
            for i in range(len(data)):
                out += d.decompress(data[i:i + 1])
                if d.eof:
                    break
        except zlib.error:
            return out, True
        if not d.eof:
            return out, True                    # truncated member
        data = d.unused_data + data[i + 1:]
        if data and data[:2] != b"\x1f\x8b":
            return out, True                    # junk after a member: the next header is refused
    return out, False


def _gz_tokens(b):
    """the two inflation tokens of the `blob` op: of the bytes, and of that result"""
    def tok(x):
        if len(x) < 5 or x[:2] != b"\x1f\x8b":
            return "-", None
        o, fails = _gunzip(x)
        return ("!" if fails else "h") + o.hex(), o
    t1, o1 = tok(b)
    t2 = "-"
    if o1 is not None:
        t2, _ = tok(o1)
    return t1 + " " + t2


def gen_blob(rng):
    """compressed / mislabelled bytes: niffler decides by the first bytes, never by the name"""
    doc = '[{"class":"' + LIT + '","email":"","hash_function":"0.murmur64","filename":null,"name":' + _jstr(gen_name(rng)) + \
          ',"license":"CC0","signatures":[' + _obj(_sk_members(rng, 0.0)) + '],"version":0.4}]'
    raw = doc.encode("utf-8")
    gz = _gzip.compress(raw, compresslevel=rng.randint(1, 9))
    kind = rng.choice(["gz", "gztrunc", "gzjunk", "gzgz", "gz2", "bz2", "xz", "zstd", "short", "zip", "gznotjson", "plain",
                       "gzhdr", "magic2", "bzmagic"])
    if kind == "gz":
        b = gz
    elif kind == "gztrunc":
        # inside the 10-byte header (nothing comes out) or inside the 8-byte trailer (everything does)
        b = gz[:rng.choice([5, 6, 9, len(gz) - 7, len(gz) - 1])]
    elif kind == "gzjunk":
        b = gz + rng.choice([b"xx", b"[]", b"\x1f\x8b"])
    elif kind == "gzgz":
        b = _gzip.compress(gz)
    elif kind == "gz2":
        i = rng.randint(1, len(raw) - 1)
        b = _gzip.compress(raw[:i]) + _gzip.compress(raw[i:])
    elif kind == "bz2":
        b = _bz2.compress(raw)
    elif kind == "xz":
        b = _lzma.compress(raw)
    elif kind == "zstd":
        b = b"\x28\xb5\x2f\xfd" + raw
    elif kind == "short":
        b = rng.choice([b"[]", b"[ ]", b"\x1f\x8b", b"\x1f\x8b\x08", b"[  ]", b"\x1f\x8b\x08\x00", b"BZ"])
    elif kind == "zip":
        b = b"PK\x03\x04" + raw
    elif kind == "gznotjson":
        b = _gzip.compress(rng.choice([b"hello " + LIT.encode(), b"\xff\xfe", b"", b"[]"]))
    elif kind == "gzhdr":
        b = b"\x1f\x8b\x08\x00\x00"
    elif kind == "magic2":
        b = b"\x1f\x8b" + raw
    elif kind == "bzmagic":
        b = b"BZ" + raw
    else:
        b = raw
    lines = [f"blob 9 h{b.hex()} {_gz_tokens(b)}"]
    for j, via in enumerate(rng.sample(["bytes", "path", "fbin", "path", "gz"], 3)):
        lines.append(f"load {100 + 10 * j + rng.randrange(8)} 9 {via} - - {1 if (via == 'path' and rng.random() < 0.2) else 0} {rng.randint(0, 1)}")
    lines.append("show 100")
    return lines


def gen_case(rng, flavour):
    if flavour == "round":
        return gen_round(rng)
    if flavour == "big":
        return gen_round(rng, max_size=5000)
    if flavour == "odd":
        return gen_odd(rng)
    if flavour == "sniff":
        return gen_sniff(rng)
    if flavour == "cli":
        return gen_cli(rng)
    if flavour == "text":
        return gen_text(rng)
    if flavour == "blob":
        return gen_blob(rng)
    raise ValueError(flavour)


# ---------------------------------------------------------------------------
# canonicalisation of the model's output: apply md5 to pre-images

def _md5_tok(tok):
    """P<k>:<mins> -> R<hex of the md5 hex string>"""
    k, _, ms = tok[1:].partition(":")
    mins = [int(x) for x in ms.split(",")] if ms else []
    return "R" + common.md5_of_pre(int(k), mins).encode().hex()


def _tx_tok(tok):
    """tx=H<hex>|P<k>:<mins>|H<hex>... -> tx=H<hex> (md5 applied to the pre-images)"""
    out = []
    for seg in tok[3:].split("|"):
        if seg.startswith("H"):
            out.append(seg[1:])
        elif seg.startswith("P"):
            k, _, ms = seg[1:].partition(":")
            mins = [int(x) for x in ms.split(",")] if ms else []
            out.append(common.md5_of_pre(int(k), mins).encode().hex())
        elif seg:
            out.append("??")
    return "tx=H" + "".join(out)


def post_model(lines):
    out = []
    for l in lines:
        if "md5=P" in l or " tx=" in l:
            parts = l.split(" ")
            for i, p in enumerate(parts):
                if p.startswith("md5=P"):
                    parts[i] = "md5=" + _md5_tok(p[4:])
                elif p.startswith("tx="):
                    parts[i] = _tx_tok(p)
            l = " ".join(parts)
        out.append(l)
    return out


# ---------------------------------------------------------------------------
# the property oracle, written from the statement (independent of the Lean model)

FIELDS = ["nsk", "name", "fn", "lic", "mol", "k", "seed", "num", "mx", "sc", "tr", "n", "md5", "hs"]


def parse_obj(text):
    """'ok sig fr=.. name=.. ...' or 'ok mh fr=.. mol=..' -> dict or None"""
    w = text.strip().split(" ")
    if len(w) < 3 or w[0] != "ok" or w[1] not in ("sig", "mh"):
        return None
    d = {"kind": w[1]}
    for p in w[2:]:
        k, _, v = p.partition("=")
        d[k] = v
    return d


def parse_load(obs):
    if not obs.startswith("ok n="):
        return None
    parts = obs.split(" ; ")
    return [parse_obj(p) for p in parts[1:]]


def same_fields(a, b, fields):
    return [f for f in fields if a.get(f) != b.get(f)]


def user_k_matches(sig, k):
    return sig["k"] == str(k)


def expected_md5(o):
    """md5 of (stored ksize, reported hashes in order) as 'R<hex>' or None when k is unreadable"""
    if o["k"] == "!":
        return None
    k = int(o["k"]) * (1 if o["mol"] == "DNA" else 3)
    mins = [int(p.split(":")[0]) for p in o["hs"].split(",")] if o["hs"] else []
    return "R" + common.md5_of_pre(k, mins).encode().hex()


def oracle(case, impl):
    """C09, from the statement:
       (1) what `load` returns for a document written by `save` equals, field by field and in order, the
           signatures that were saved (restricted to those matching the ksize / moltype filter, where the
           k-mer size is the one the user gave when building the sketch);
       (2) saving what was loaded gives an equal document;
       (3) pickling / copying / to_mutable / to_frozen leave every field unchanged;
       (4) (hand-crafted documents) the md5 a loaded signature reports is the md5 of its content, and the
           license it reports is the one in the file (both were violated before the repairs C09.2 / C09.4;
           kept as regression checks).  A path containing 'sourmash_signature' must load (C09.3).
       Known: (1) fails for ksize filters on protein-like sketches (C09.1: the filter uses the stored 3x k)."""
    bad = []
    obj = {}        # handle -> parsed fields
    saved = {}      # doc handle -> list of parsed sig fields (in file order)
    dump = {}       # doc handle -> dump line
    origin = {}     # loaded handle -> (doc, unfiltered?)
    hand = {}       # doc handle -> list of (license token, ...) for hand-crafted docs
    cli_out = {}    # doc handle written by `cli cat` / `cli rename` -> (kind, source doc, new name)
    for idx, (op, obs) in enumerate(zip(case, impl)):
        w = op.split(" ")
        o = w[0]
        if obs.startswith("err ViewError"):
            bad.append((idx, "C09:views-disagree", f"`{op[:80]}`: {obs[14:300]}"))
            continue
        if o == "recheck":
            continue
        if o == "eqp":
            if not obs.startswith("ok "):
                bad.append((idx, "C09:eq-panics-on-from-params-signature",
                            f"`{op}`: `==` with a signature built by from_params on the left answers {obs[:40]} "
                            f"(PartialEq for Signature is `unimplemented!()` for B-tree sketches)"))
            continue
        if o == "cli":
            sub = w[1]
            if sub in ("describe", "split"):
                d = int(w[2])
                if d in saved and obs != f"ok n={sum(int(x.get('nsk', '1')) for x in saved[d])}":
                    bad.append((idx, f"C09:cli-{sub}", f"`{op}` answered {obs[:120]} for a file holding {len(saved[d])} signatures"))
                continue
            d2, d = int(w[2]), int(w[3])
            if not obs.startswith("ok gz="):
                if d in saved:
                    bad.append((idx, f"C09:cli-{sub}-refused", f"`{op[:80]}` answered {obs[:80]}"))
                continue
            dump[d2] = obs.split(" ", 2)[2]
            if d in saved:
                if sub == "cat":
                    saved[d2] = saved[d]
                    if d in dump and dump[d2] != dump[d]:
                        bad.append((idx, "C09:cli-cat-differs", f"`sig cat` of a saved file writes a different document: "
                                         f"{dump[d2][:100]} vs {dump[d][:100]}"))
                elif sub == "rename":
                    saved[d2] = [dict(x, name=w[4]) for x in saved[d]]      # only the name may change
            continue
        if o == "eq":
            x, y = obj.get(int(w[1])), obj.get(int(w[2]))
            if x is None or y is None or x.get("hand") or y.get("hand") or obs not in ("ok 0", "ok 1"):
                if x is not None and y is not None and not (x.get("hand") or y.get("hand")) and x["kind"] == y["kind"] \
                        and not obs.startswith("bad-op"):
                    bad.append((idx, "C09:eq-refused", f"`{op}` answered {obs[:80]}"))
                continue
            if x["kind"] != y["kind"]:
                continue
            fl = ["name", "fn", "md5"] if x["kind"] == "sig" else ["mol", "k", "seed", "num", "mx", "tr", "hs"]
            want = int(not same_fields(x, y, fl))
            if obs != f"ok {want}":
                bad.append((idx, "C09:eq-wrong", f"`{op}`: == answers {obs[3:]}, the two objects "
                                 f"{'agree' if want else 'differ'} in {fl}"))
            continue
        if o == "update":
            r, h = int(w[1]), int(w[2])
            p = parse_obj(obs)
            src = obj.get(h)
            if p is not None and src is not None:
                p["hand"] = src.get("hand", False)
                obj[r] = p
                diff = same_fields(src, p, FIELDS)
                if diff and not src.get("hand"):
                    bad.append((idx, "C09:update-changes:" + diff[0], f"`{op}`: field {diff[0]} changed"))
            continue
        if o == "params":
            p = parse_obj(obs)
            if p is not None:
                obj[int(w[1])] = p
            continue
        if o == "loadone":
            r, d, k, mo = int(w[1]), int(w[2]), w[4], w[5]
            p = parse_obj(obs)
            if d in hand or d not in saved:
                if p is not None:
                    p["hand"] = True
                    obj[r] = p
                continue
            exp = saved[d]
            if k != "-" and int(k) != 0:
                exp = [x for x in exp if str(int(x["k"]) * (1 if x["mol"] == "DNA" else 3)) == k]   # stored k (C09.1)
            if mo != "-":
                exp = [x for x in exp if x["mol"].lower() == unx(mo).lower()]
            if len(exp) == 1:
                if p is None:
                    bad.append((idx, "C09:loadone-refused", f"`{op}` answered {obs[:80]} for a file holding one matching signature"))
                else:
                    obj[r] = p
                    diff = same_fields(exp[0], p, FIELDS)
                    if diff:
                        bad.append((idx, "C09:roundtrip-field:" + diff[0], f"`{op}`: field {diff[0]} differs"))
            elif p is not None:
                bad.append((idx, "C09:loadone-count", f"`{op}` returned a signature although {len(exp)} match"))
            continue
        if o in ("mh", "sig", "getmh", "show"):
            p = parse_obj(obs)
            if p is not None:
                if o in ("sig", "getmh") and obj.get(int(w[2]), {}).get("hand"):
                    p["hand"] = True
                obj[int(w[1])] = p
            continue
        if o in ("pickle", "copy", "tomut", "tofrozen"):
            r, h = int(w[1]), int(w[2])
            p = parse_obj(obs)
            src = obj.get(h)
            if src is None:
                continue
            if p is None:
                if src.get("hand"):
                    continue
                bad.append((idx, f"C09:{o}-refused", f"`{op}` of a {src['kind']} answered {obs[:80]}"))
                continue
            p["hand"] = src.get("hand", False)
            obj[r] = p
            if src.get("hand") and src["kind"] == "sig" and p.get("lic") != src.get("lic"):
                # (3) for a signature whose envelope is not the default one (only a foreign file gives that)
                bad.append((idx, "C09:copy-resets-license",
                            f"`{op}`: the signature says license {unx(src['lic'])!r}, its {o} says {unx(p['lic'])!r} "
                            f"(__copy__/__reduce__ pass only minhash, name, filename to the constructor)"))
            fields = FIELDS if src["kind"] == "sig" else FIELDS[4:]
            diff = same_fields(src, p, fields)
            if diff and diff[0] == "nsk":
                bad.append((idx, "C09:copy-drops-sketches",
                            f"`{op}`: the signature holds {src['nsk']} sketches, its {o} holds {p['nsk']} "
                            f"(only the first sketch reaches the constructor)"))
            elif diff and not src.get("hand"):
                bad.append((idx, f"C09:{o}-changes:" + diff[0],
                            f"`{op}`: field {diff[0]} was {src.get(diff[0])[:60]} and is {p.get(diff[0])[:60]} afterwards"))
            continue
        if o == "save":
            d = int(w[1])
            hs = [int(x) for x in w[4:]]
            if not obs.startswith("ok gz="):
                if all(h in obj for h in hs) and not any(obj[h].get("hand") for h in hs):
                    bad.append((idx, "C09:save-refused", f"`{op[:60]}` answered {obs[:80]}"))
                continue
            dump[d] = obs.split(" ", 2)[2]          # without the gz flag (includes the text, byte for byte)
            if any(obj.get(h, {}).get("hand") for h in hs):
                hand[d] = None                      # derived from a hand-crafted document
            if all(h in obj for h in hs):
                saved[d] = [obj[h] for h in hs]
                c = int(w[2])
                if (c > 0) != obs.startswith("ok gz=1"):
                    bad.append((idx, "C09:compression-flag", f"compression={c} but the bytes are "
                                     f"{'gzip' if obs.startswith('ok gz=1') else 'plain'}"))
                # (2) re-saving what was loaded without a filter, in order, from one document
                srcs = {origin.get(h) for h in hs}
                if len(srcs) == 1 and None not in srcs:
                    d0, full, count = next(iter(srcs))
                    if full and d0 in dump and d0 in saved and count == len(hs) and \
                            hs == list(range(hs[0], hs[0] + len(hs))) and not any(obj[h].get("hand") for h in hs):
                        if dump[d0] != dump[d]:
                            bad.append((idx, "C09:resave-differs", f"saving what was loaded from document {d0} gives a different "
                                             f"document: {dump[d][:120]} vs {dump[d0][:120]}"))
            continue
        if o == "doc":
            d = int(w[1])
            hand[d] = op
            continue
        if o == "load":
            r, d, via, k, m, lit, do_raise = int(w[1]), int(w[2]), w[3], w[4], w[5], w[6], w[7]
            got = parse_load(obs)
            if d in hand:
                # (4) irregular documents: C11-style facts about whatever was accepted
                if got:
                    lics = [t[4:] for t in (hand[d] or "").split(" ") if t.startswith("lic=")]
                    for i, g in enumerate(got):
                        if g is None:
                            continue
                        g["hand"] = True
                        obj[r + i] = g
                        e = expected_md5(g)
                        if e is not None and g["md5"] != e and int(g["n"]) == len(g["hs"].split(",") if g["hs"] else []):
                            bad.append((idx, "C09:stale-md5-trusted-from-file",
                                        f"`{op}`: loaded signature {i} reports md5 {bytes.fromhex(g['md5'][1:]).decode('utf-8', 'replace')[:40]!r}, "
                                        f"the md5 of its k-mer size and hashes is {bytes.fromhex(e[1:]).decode()}"))
                    if len(lics) == 1 and lics[0].startswith("x"):
                        for g in got:
                            if g is not None and g["lic"] != lics[0]:
                                bad.append((idx, "C09:license-not-read-from-file",
                                            f"`{op}`: the document says license {unx(lics[0])!r}, the loaded signature says {unx(g['lic'])!r}"))
                                break
                continue
            if d not in saved:
                continue
            exp = saved[d]
            if any(int(x.get("nsk", "1")) != 1 for x in exp):
                # a signature holding several sketches is loaded as one signature per sketch
                n_exp = sum(int(x.get("nsk", "1")) for x in exp)
                if got is not None and k == "-" and m == "-" and len(got) != n_exp:
                    bad.append((idx, "C09:load-count", f"`{op}`: {len(got)} signatures loaded from a file holding {n_exp} sketches"))
                for i, g in enumerate(got or []):
                    if g is not None:
                        obj[r + i] = g
                continue
            if m != "-":
                mm = unx(m).lower()
                if mm not in ("dna", "protein", "dayhoff", "hp"):
                    continue
                exp = [s for s in exp if s["mol"].lower() == mm]
            if k != "-" and int(k) != 0:
                exp = [s for s in exp if user_k_matches(s, int(k))]
            k_filter_on_nondna = k != "-" and int(k) != 0 and any(s["mol"] != "DNA" for s in saved[d])
            if via == "ftexttmp" and (got is None or (not got and exp)) and not k_filter_on_nondna:
                # (with a ksize filter over non-DNA sketches an empty answer is known finding C09.1, classified below)
                bad.append((idx, "C09:text-file-object-closed-before-read",
                            f"`{op}`: a text-mode file object passed directly (`load_signatures_from_json(open(path))`) is "
                            f"closed before it is read: {obs[:40]}"))
                continue
            if got is None:
                if lit == "1":
                    bad.append((idx, "C09:path-containing-class-literal",
                                f"`{op}`: a file whose name contains 'sourmash_signature' cannot be loaded by path: {obs[:60]}"))
                else:
                    bad.append((idx, "C09:load-refused", f"`{op}` answered {obs[:80]}"))
                continue
            for i, g in enumerate(got):
                if g is not None:
                    obj[r + i] = g
                    origin[r + i] = (d, k == "-" and m == "-", len(got))
            if len(got) != len(exp) or any(g is None for g in got):
                if lit == "1" and not got:
                    sig = "C09:path-containing-class-literal"
                elif k != "-" and any(s["mol"] != "DNA" for s in saved[d]):
                    sig = "C09:ksize-filter-protein-unscaled"
                else:
                    sig = "C09:load-count"
                note = " -- the ksize filter compares with the STORED k (3x the k-mer size for protein/dayhoff/hp)" \
                    if sig == "C09:ksize-filter-protein-unscaled" else ""
                bad.append((idx, sig, f"`{op}`: {len(got)} signatures loaded, {len(exp)} saved ones match "
                                      f"(k as given to the constructor: {[s['k'] + '/' + s['mol'] for s in saved[d]]})" + note))
                continue
            for i, (g, e) in enumerate(zip(got, exp)):
                diff = same_fields(e, g, FIELDS)
                if diff:
                    sig = "C09:roundtrip-field:" + diff[0]
                    if k != "-" and any(s["mol"] != "DNA" for s in saved[d]):
                        sig = "C09:ksize-filter-protein-unscaled"
                    bad.append((idx, sig, f"`{op}`: signature {i}: field {diff[0]} was {e[diff[0]][:60]} when saved "
                                          f"and is {g[diff[0]][:60]} when loaded"))
                    break
            continue
    return bad


def nontrivial(case, impl):
    """some load returned a signature holding >= 2 hashes, or (sniff cases) >= 3 different classifications/inputs"""
    for op, obs in zip(case, impl):
        if op.startswith("load ") and obs.startswith("ok n="):
            for g in parse_load(obs) or []:
                if g is not None and g.get("hs", "").count(":") >= 2:
                    return True
    if case and case[0].startswith("blob "):
        # text / blob cases: a text of some length that some load answered with signatures or with an error
        return len(case[0]) > 60 and any(op.startswith("load ") and (obs.startswith("err ") or obs.startswith("ok n=") and obs != "ok n=0")
                                         for op, obs in zip(case, impl))
    return len({o for o in impl if o.startswith("ok ")}) >= 3 and all(op.startswith("sniff") for op in case)


def classify(case, impl, model, k):
    op = case[k].split(" ")[0] if k < len(case) else "?"
    return f"C09:corr:{op}"
