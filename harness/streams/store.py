"""The `store` correspondence stream (C10): a set of signatures is saved to one collection format in
1-3 create-then-append sessions, then inspected (members, manifest, len) and reloaded in every way
(generic loader, standalone manifest, path list, directory).

Op lines (decimal integers; names / file names / md5 are integers, the adapter maps them to strings):

  sig <i> <name> <filename> <ksize> <mol> <num> <scaled> <seed> <track> <md5> [h:a ...]
  zip|dir|sqldb <sessions>        sessions: "0,1|2|-"  (indices into the sig table, "-" = empty session)
  sigfile <gz> <sessions>
  sbt <list>                      lca <ksize> <mol> <scaled> <maxhash> <list>
  members | manifest | len
  rebuild                         (zip) the manifest `get_manifest(idx, rebuild=True)` builds (= `sourmash sig manifest`)
  locs                            (SBT) number of manifest rows, number of distinct locations
  load generic|standalone|standalone-sql|pathlist|directory
  kind <file kind>                which registered loaders accept a real file of that kind, and who wins
  conv <x>                        convert_hash_to(x), convert_hash_from(convert_hash_to(x))

Observation lines starting with `ok~` hold an unordered `;`-separated bag (both sides are sorted before
the comparison); a model md5 of `-` (LCA databases rebuild sketches, md5 is not modelled there) matches
any md5 on the implementation side -- the oracle recomputes it.
"""
import os
import sys
from collections import Counter

sys.path.insert(0, os.path.dirname(os.path.dirname(os.path.abspath(__file__))))
import common  # noqa: E402
from streams.mh import mh_for_scaled  # noqa: E402

MODULE = "store"
ADAPTER = "store_impl.py"
U64 = 2 ** 64 - 1

KINDS = ["sigJson", "sigGz", "directory", "zipColl", "sqldbIndex", "sqlManifest", "csvManifest", "pathlist",
         "sbtZip", "sbtJson", "lcaJson", "lcaSqldb", "fasta", "emptyText", "missing"]


# ---------------------------------------------------------------------------------------------
# generator

def md5_of(ksize, mol, mins):
    return int(common.md5_of_pre(ksize if mol == 0 else ksize * 3, sorted(mins)), 16)


def sig_line(i, s):
    hs = " ".join(f"{h}:{a}" for h, a in s["hashes"])
    return (f"sig {i} {s['name']} {s['filename']} {s['ksize']} {s['mol']} {s['num']} {s['scaled']} {s['seed']} "
            f"{int(s['track'])} {s['md5']}" + (" " + hs if hs else ""))


def gen_sigs(rng, flavour, n):
    base_scaled = rng.choice([1, 1, 1, 1, 2, 10, 1000])
    M = mh_for_scaled(base_scaled)
    cands = [0, 1, 2, 3, 5, 7, 11, 2 ** 63 - 1, 2 ** 63, 2 ** 63 + 5, U64, U64 - 1, M, M - 1, M // 2, M // 3]
    cands = sorted({c for c in cands if 0 <= c <= M})
    contents = []
    for _ in range(rng.randint(1, 3)):
        k = rng.choice([0, 1, 2, 3, 3, 4, 6])
        contents.append(sorted(rng.sample(cands, min(k, len(cands)))))
    if rng.random() < 0.4:
        contents.append([])
    names = [rng.randint(1, 5) for _ in range(3)] + ([0] if flavour != "lca" and rng.random() < 0.3 else [])
    sigs = []
    for _ in range(n):
        r = rng.random()
        ksize, mol, num, scaled, track, seed = 21, 0, 0, base_scaled, False, 42
        mins = list(rng.choice(contents))
        if r < 0.10:
            track = True
        elif r < 0.17:
            num, scaled = rng.choice([3, 5, 500]), 0
            mins = sorted(rng.sample(cands, min(len(cands), rng.randint(0, min(num, 4)))))
        elif r < 0.24:
            scaled = base_scaled * 2
            M2 = mh_for_scaled(scaled)
            mins = [h for h in mins if h <= M2]
        elif r < 0.29:
            ksize, mol = rng.choice([(31, 0), (7, 1), (7, 2), (7, 3)])
        if flavour == "sqlseed" and rng.random() < 0.3:
            seed = 43
        abund = [rng.choice([1, 1, 2, 3, 2 ** 32]) for _ in mins] if track else [1] * len(mins)
        s = dict(name=rng.choice(names), filename=rng.choice([0, 0, 0, 7]), ksize=ksize, mol=mol, num=num,
                 scaled=scaled, seed=seed, track=track, hashes=list(zip(mins, abund)))
        s["md5"] = md5_of(ksize, mol, mins)
        sigs.append(s)
    return sigs, base_scaled


def gen_sessions(rng, n, nsess, dup_bias=0.15):
    if n == 0:
        return [[] for _ in range(nsess)]
    out = []
    for _ in range(nsess):
        k = rng.choice([0, 1, 2, 2, 3, 3, 4, 5])
        sess = [rng.randrange(n) for _ in range(k)]
        if sess and rng.random() < dup_bias:
            sess.append(rng.choice(sess))       # an exact duplicate inside the session
        out.append(sess)
    return out


def sess_str(sessions):
    return "|".join(",".join(str(i) for i in s) if s else "-" for s in sessions)


def gen_case(rng, flavour):
    if flavour == "kind":
        return [f"kind {k}" for k in rng.sample(KINDS, 4)] + \
               [f"conv {rng.choice([0, 1, 2 ** 63 - 1, 2 ** 63, 2 ** 63 + 1, U64, rng.randint(0, U64)])}" for _ in range(4)]
    n = rng.choice([0, 1, 2, 3, 3, 4, 5, 6, 8, 10])
    sigs, base_scaled = gen_sigs(rng, flavour, n)
    if flavour == "zipappend" and n >= 2:
        # the boundary the property names: identical content under different names, in an append session
        a = rng.randrange(n)
        b = dict(sigs[a])
        b["name"] = sigs[a]["name"] % 5 + 1
        sigs.append(b)
        n += 1
    lines = [sig_line(i, s) for i, s in enumerate(sigs)]
    ways = ["generic"]
    if rng.random() < 0.5:
        ways.append("standalone")
    if rng.random() < 0.4:
        ways.append("pathlist")
    if flavour in ("zip", "zipappend"):
        nsess = rng.choice([1, 2, 2, 3])
        sessions = gen_sessions(rng, n, nsess)
        if flavour == "zipappend" and n >= 2 and nsess >= 2:
            sessions[-1] += [a, n - 1] if rng.random() < 0.7 else [n - 1]
            if rng.random() < 0.3:
                sessions[0].append(a)
        lines.append("zip " + sess_str(sessions))
        lines += ["members", "manifest", "len"]
        if rng.random() < 0.5:
            lines.append("rebuild")
        if rng.random() < 0.4:
            ways.append("standalone-sql")
    elif flavour in ("sqldb", "sqlseed"):
        sessions = gen_sessions(rng, n, rng.choice([1, 2, 3]))
        lines.append("sqldb " + sess_str(sessions))
        lines += ["manifest", "len"]
        if rng.random() < 0.3:
            ways.append("standalone-sql")
    elif flavour == "dir":
        sessions = gen_sessions(rng, n, rng.choice([1, 2]))
        lines.append("dir " + sess_str(sessions))
        lines += ["members", "manifest", "len"]
        ways.append("directory")
        if rng.random() < 0.3:
            ways.append("standalone-sql")
    elif flavour == "sigfile":
        sessions = gen_sessions(rng, n, 1)
        lines.append(f"sigfile {rng.randrange(2)} " + sess_str(sessions))
        lines += ["manifest", "len"]
        ways.append("directory")
    elif flavour == "sbt":
        sessions = gen_sessions(rng, n, 1)
        if not sessions[0]:
            sessions[0] = [0] if n else []
        if not sessions[0]:
            return gen_case(rng, "zip")
        lines.append("sbt " + sess_str(sessions))
        lines += ["members", "manifest", "locs", "len"]
    elif flavour == "lca":
        sessions = gen_sessions(rng, n, 1)
        db_scaled = rng.choice([base_scaled, base_scaled, base_scaled * 2, base_scaled * 4])
        lines.append(f"lca 21 0 {db_scaled} {mh_for_scaled(db_scaled)} " + sess_str(sessions))
        lines += ["manifest", "len"]
        ways = ["generic"] + (["pathlist"] if rng.random() < 0.3 else [])
    else:
        raise KeyError(flavour)
    lines += [f"load {w}" for w in ways]
    return lines


# ---------------------------------------------------------------------------------------------
# canonicalisation

def _canon(lines):
    out = []
    for l in lines:
        if l.startswith("ok~ "):
            items = l[4:].split(";") if l[4:] else []
            out.append("ok~ " + ";".join(sorted(items)))
        elif l == "ok~":
            out.append("ok~ ")
        else:
            out.append(l)
    return out


post_impl = _canon
post_model = _canon


def _wild(model_line, impl_line):
    """a model md5 of '-' (third '/'-field of a signature item) matches anything"""
    if not (model_line.startswith("ok~ ") and impl_line.startswith("ok~ ")):
        return False
    mi, ii = model_line[4:].split(";"), impl_line[4:].split(";")
    if len(mi) != len(ii):
        return False

    def strip(item):
        f = item.split("/")
        if len(f) >= 3:
            f[2] = "-"
        return "/".join(f)
    return sorted(strip(x) for x in ii) == sorted(mi)


def same(a, b):
    """a = implementation line, b = model line"""
    return a == b or ("/-/" in b and _wild(b, a))


# ---------------------------------------------------------------------------------------------
# the property oracle: written from the statement of C10, independent of the Lean model

def parse_sig_line(l):
    w = l.split()
    i, name, filename, ksize, mol, num, scaled, seed, track, md5 = [int(x) for x in w[1:11]]
    hashes = tuple(tuple(int(v) for v in x.split(":")) for x in w[11:])
    return i, (name, filename, md5, ksize, mol, num, scaled, seed, track, hashes)


def parse_sig_item(item):
    f = item.split("/")
    if len(f) != 10:
        return None
    try:
        hashes = tuple(tuple(int(v) for v in x.split(":")) for x in f[9].split(",")) if f[9] else ()
        return (int(f[0]), int(f[1]), int(f[2]), int(f[3]), int(f[4]), int(f[5]), int(f[6]), int(f[7]), int(f[8]), hashes)
    except ValueError:
        return None


def items_of(line):
    """observation line -> list of items, or None when it is not a list"""
    if line.startswith("ok~ "):
        body = line[4:]
    elif line.startswith("ok "):
        body = line[3:]
    elif line in ("ok", "ok~"):
        body = ""
    else:
        return None
    return body.split(";") if body else []


def parse_sessions(s):
    return [[] if p == "-" else [int(x) for x in p.split(",")] for p in s.split("|")]


def parse_refused(out):
    if not out.startswith("ok refused="):
        return None
    body = out[len("ok refused="):]
    res = set()
    for it in body.split(",") if body else []:
        pos = it.split(":")[0]
        si, j = pos.split(".")
        res.add((int(si), int(j)))
    return res


NAME, FILENAME, MD5, KSIZE, MOL, NUM, SCALED, SEED, TRACK, HASHES = range(10)


def row_of(sig):
    """what the statement says a manifest row must hold for this signature (all columns but the location)"""
    return (sig[MD5], sig[MD5] >> 96, sig[KSIZE], sig[MOL], sig[NUM], sig[SCALED], len(sig[HASHES]), sig[TRACK],
            sig[NAME], sig[FILENAME])


def key3(sig):
    """(name, md5, sorted hashes + abundances): what the statement compares"""
    return (sig[NAME], sig[MD5], sig[HASHES])


class Coll:
    def __init__(self, fmt):
        self.fmt = fmt
        self.sessions = []
        self.refused = set()
        self.db_scaled = None
        self.db_max = None
        self.db_k = None
        self.db_mol = None
        self.members = None
        self.rows = None
        self.ok = False

    def adds(self):
        """[(session index, position, sig index)] in order, minus (for a single JSON file) overwritten sessions"""
        out = []
        for si, sess in enumerate(self.sessions):
            if self.fmt == "sigfile" and si != len(self.sessions) - 1:
                continue
            for j, i in enumerate(sess):
                out.append((si, j, i))
        return out


def lca_expected(sig, coll):
    kept = tuple((h, 1) for h, _ in sig[HASHES] if h <= coll.db_max)
    md5 = md5_of(sig[KSIZE], sig[MOL], [h for h, _ in kept])
    return (sig[NAME], 0, md5, sig[KSIZE], sig[MOL], 0, coll.db_scaled, 42, 0, kept)


def must_refuse(sig, coll, accepted_before):
    """documented restrictions of the format: this signature cannot be held"""
    if coll.fmt == "sqldb":
        if sig[NUM] != 0 or sig[TRACK]:
            return True
        if accepted_before and accepted_before[0][SCALED] != sig[SCALED]:
            return True
        return False
    if coll.fmt == "lca":
        if sig[KSIZE] != coll.db_k or sig[MOL] != coll.db_mol or sig[NUM] != 0 or sig[SCALED] == 0:
            return True
        if sig[SCALED] > coll.db_scaled:
            return True
        if any(s[NAME] == sig[NAME] for s in accepted_before):
            return True            # identifiers (names) are unique in an LCA database
        return False
    return False


def oracle(case, impl):
    bad = []
    sigs = {}
    coll = None
    expected = None          # list of expected loaded signatures (format restrictions applied)
    stored = None            # the accepted signatures as given
    for k, (op, out) in enumerate(zip(case, impl)):
        w = op.split()
        if not w:
            continue
        if w[0] == "sig":
            i, s = parse_sig_line(op)
            sigs[i] = s
            if out != f"ok md5={s[MD5]} n={len(s[HASHES])}":
                bad.append((k, "skip:generator", f"signature not built as described: {out}"))
                return bad
            continue
        if w[0] in ("zip", "dir", "sqldb", "sigfile", "sbt", "lca"):
            coll = Coll(w[0])
            if w[0] == "sigfile":
                coll.sessions = parse_sessions(w[2])
            elif w[0] == "lca":
                coll.db_k, coll.db_mol, coll.db_scaled, coll.db_max = int(w[1]), int(w[2]), int(w[3]), int(w[4])
                coll.sessions = parse_sessions(w[5])
            else:
                coll.sessions = parse_sessions(w[1])
            ref = parse_refused(out)
            if out == "bad-op":
                coll = None
                continue
            if ref is None:
                bad.append((k, f"C10:save-failed:{coll.fmt}", f"saving raised: `{op}` -> {out}"))
                coll = None
                continue
            coll.refused = ref
            coll.ok = True
            stored, expected = [], []
            for si, j, i in coll.adds():
                s = sigs[i]
                need = must_refuse(s, coll, stored)
                if (si, j) in ref:
                    if not need:
                        bad.append((k, f"C10:refused-valid:{coll.fmt}",
                                    f"signature {i} satisfies the documented restrictions of {coll.fmt} but was refused"))
                    continue
                if need:
                    bad.append((k, f"C10:accepted-unrepresentable:{coll.fmt}",
                                f"signature {i} cannot be held by {coll.fmt} (num/abundance/scaled/ksize/duplicate name) "
                                f"but was accepted silently"))
                stored.append(s)
                expected.append(lca_expected(s, coll) if coll.fmt == "lca" else s)
            continue
        if coll is None or not coll.ok:
            continue
        fmt = coll.fmt
        if w[0] == "members":
            it = items_of(out)
            coll.members = it
            continue
        if w[0] == "manifest":
            if out == "ok none":
                coll.rows = None
                continue
            it = items_of(out)
            if it is None:
                if not (fmt in ("sigfile", "dir") and not expected and out == "err ValueError"):
                    bad.append((k, f"C10:manifest-unreadable:{fmt}", f"manifest could not be read: {out}"))
                continue
            rows = []
            for r in it:
                f = r.split("|")
                rows.append((f[0],) + tuple(int(x) if x.lstrip('-').isdigit() else x for x in f[1:]))
            coll.rows = rows
            want = Counter(row_of(s) for s in expected)
            got = Counter(r[1:] for r in rows)
            if want != got:
                bad.append((k, f"C10:manifest-columns:{fmt}",
                            f"manifest rows differ from the stored signatures: missing {list((want - got).elements())[:2]} "
                            f"unexpected {list((got - want).elements())[:2]}"))
            if fmt in ("zip", "dir") and coll.members is not None:
                mem = [m for m in coll.members if m != "MANIFEST"]
                locs = [r[0] for r in rows]
                dangling = [l for l in locs if l not in mem]
                orphan = [m for m in mem if m not in locs]
                if dangling:
                    bad.append((k, f"C10:manifest-dangling-location:{fmt}", f"rows point to missing members {dangling[:3]}"))
                if orphan:
                    bad.append((k, f"C10:orphan-member:{fmt}", f"members not listed by the manifest {orphan[:3]}"))
                if not dangling and not orphan and len(set(locs)) != len(locs):
                    # several rows, one member
                    groups = {}
                    for r in rows:
                        groups.setdefault(r[0], []).append(r[1:])
                    differing = [l for l, g in groups.items() if len(set(g)) > 1]
                    identical = [l for l, g in groups.items() if len(g) > len(set(g))]
                    msg = f"{len(locs)} manifest rows share {len(set(locs))} members"
                    if differing:
                        sig = "C10:zip-append-same-md5-overwrite" if fmt == "zip" and _d10_shape(coll, sigs) \
                            else f"C10:manifest-vs-members:{fmt}"
                        bad.append((k, sig, msg + f": rows of DIFFERENT signatures point at {differing[:2]}"))
                    if identical:
                        bad.append((k, f"C10:exact-duplicate-collapsed:{fmt}",
                                    msg + " (the same signature saved twice is one member, two rows)"))
            continue
        if w[0] == "rebuild":
            it = items_of(out)
            if it is None or out == "ok -":
                if out != "ok -":
                    bad.append((k, f"C10:manifest-unreadable:{fmt}:rebuild", f"manifest could not be rebuilt: {out}"))
                continue
            rows = []
            for r in it:
                f = r.split("|")
                rows.append((f[0],) + tuple(int(x) if x.lstrip('-').isdigit() else x for x in f[1:]))
            # a rebuilt manifest describes the members: one row per stored signature, exact duplicates once
            want = Counter(set(row_of(s) for s in expected)) if fmt == "zip" else Counter(row_of(s) for s in expected)
            got = Counter(r[1:] for r in rows)
            if want != got:
                miss = list((want - got).elements())
                extra = list((got - want).elements())
                md5s_kept = {r[1] for r in rows}
                if fmt == "zip" and not extra and miss and all(m[0] in md5s_kept for m in miss):
                    bad.append((k, "C10:zip-rebuilt-manifest-skips-suffixed-members",
                                f"the manifest rebuilt from the zip (sig manifest) lacks {miss[:2]}: members named "
                                "<md5>.sig.gz_<n> (same md5 as an earlier member) do not end in .sig/.sig.gz and are never opened"))
                else:
                    bad.append((k, f"C10:manifest-columns:{fmt}:rebuild",
                                f"rebuilt manifest differs from the stored signatures: missing {miss[:2]} unexpected {extra[:2]}"))
            continue
        if w[0] == "len":
            continue            # judged together with the load below
        if w[0] == "load":
            it = items_of(out)
            if it is None:
                if fmt in ("sigfile", "dir") and not expected and out == "err ValueError":
                    bad.append((k, f"C10:empty-collection-unloadable:{fmt}",
                                f"an empty set of signatures saved as {fmt} cannot be reloaded ({w[1]}): {out} "
                                "(refused loudly: a JSON file holding [] is 'too short', a directory without files has 'no signatures')"))
                else:
                    bad.append((k, f"C10:load-failed:{fmt}:{w[1]}", f"reloading ({w[1]}) raised: {out}"))
                continue
            loaded = [parse_sig_item(x) for x in it]
            if any(x is None for x in loaded):
                bad.append((k, f"C10:load-unparsable:{fmt}", out[:200]))
                continue
            if fmt == "lca":
                want = Counter(key3(s) for s in expected)
                got = Counter(key3(s) for s in loaded)
            else:
                want = Counter(expected)
                got = Counter(loaded)
            if want != got:
                bad.append(classify_loss(k, coll, sigs, expected, loaded,
                                         f"reloaded ({w[1]}) multiset differs from the stored one: missing "
                                         f"{[key3(s) if len(s) == 10 else s for s in (want - got).elements()][:2]} unexpected "
                                         f"{[key3(s) if len(s) == 10 else s for s in (got - want).elements()][:2]}"))
            # len() of the collection, observed earlier in the case
            for kk in (range(k - 1, -1, -1) if w[1] == "generic" else []):
                if case[kk].split()[0] == "len":
                    lo = impl[kk]
                    if lo.startswith("ok ") and lo[3:].isdigit() and int(lo[3:]) != len(loaded):
                        bad.append(classify_loss(kk, coll, sigs, expected, loaded,
                                                 f"len() = {lo[3:]} but {len(loaded)} signatures are returned"))
                    break
                if case[kk].split()[0] in ("zip", "dir", "sqldb", "sigfile", "sbt", "lca"):
                    break
            # manifest rows <-> returned signatures
            if coll.rows is not None and w[1] == "generic":
                a = Counter(r[1:] for r in coll.rows)
                b = Counter(row_of(s) for s in loaded)
                if a != b and want == got:
                    bad.append((k, f"C10:manifest-vs-members:{fmt}", "manifest rows and returned signatures differ"))
            continue
    # de-duplicate
    seen, out = set(), []
    for b in bad:
        if (b[0], b[1]) not in seen:
            seen.add((b[0], b[1]))
            out.append(b)
    return out


def classify_loss(k, coll, sigs, expected, loaded, msg):
    """give a loss its specific signature"""
    fmt = coll.fmt
    if loaded is None:
        # two manifest rows on one member
        exp = Counter(expected)
        if fmt in ("zip", "sbt") and any(c > 1 for c in exp.values()) and not _d10_shape(coll, sigs):
            return (k, f"C10:exact-duplicate-collapsed:{fmt}", msg + " (the same signature saved twice is one member, two rows)")
        if fmt == "zip" and _d10_shape(coll, sigs):
            return (k, "C10:zip-append-same-md5-overwrite", msg)
        return (k, f"C10:manifest-vs-members:{fmt}", msg)
    if fmt == "lca":
        want = Counter(key3(s) for s in expected)
        got = Counter(key3(s) for s in loaded)
        miss = list((want - got).elements())
        extra = list((got - want).elements())
        if not extra and miss and all(len(m[2]) == 0 for m in miss):
            return (k, "C10:lca-empty-sketch-vanishes", msg + " (sketches that are empty at the database's scaled are counted by len() but never returned)")
        return (k, "C10:load-mismatch:lca", msg)
    want, got = Counter(expected), Counter(loaded)
    miss = want - got
    extra = got - want
    if "(standalone-sql)" in msg and not extra and miss:
        kept_md5 = {s[MD5] for s in loaded}
        gone = [s for s in miss if got[s] == 0]
        fewer = [s for s in miss if got[s] > 0]
        if all(s[MD5] in kept_md5 for s in gone):
            if gone:
                return (k, "C10:sql-manifest-drops-same-md5-rows",
                        msg + " (a SQLite-format manifest keeps one row per (location, md5): UNIQUE + INSERT OR IGNORE; "
                              "other signatures with that md5 in the same collection are not listed and not returned)")
            if fewer and fmt in ("zip", "sbt"):
                return (k, f"C10:exact-duplicate-collapsed:{fmt}",
                        msg + " (the same signature saved twice is returned once; the manifest lists it twice)")
    if fmt == "sqldb":
        noseed = lambda s: s[:SEED] + (42,) + s[SEED + 1:]
        if Counter(noseed(s) for s in expected) == Counter(noseed(s) for s in loaded):
            return (k, "C10:sqlite-seed-not-stored", msg + " (only the seed differs: SqliteIndex records seed 42 for every sketch)")
    if fmt in ("zip", "sbt") and not extra:
        if all(got[s] >= 1 for s in miss):
            return (k, f"C10:exact-duplicate-collapsed:{fmt}", msg + " (the same signature saved twice is returned once; the manifest lists it twice)")
        if fmt == "zip" and _d10_shape(coll, sigs, lost=[s for s in miss if got[s] == 0]):
            return (k, "C10:zip-append-same-md5-overwrite",
                    msg + " (two signatures with equal md5 added in one append session share a member name; the first is overwritten)")
    return (k, f"C10:load-mismatch:{fmt}", msg)


def _d10_shape(coll, sigs, lost=None):
    """an append session (index >= 1) adds two different signatures with the same md5 (and, when `lost` is
    given, every lost signature is the earlier one of such a pair)"""
    hit = set()
    for si, sess in enumerate(coll.sessions):
        if si == 0:
            continue
        for a in range(len(sess)):
            for b in range(a + 1, len(sess)):
                x, y = sigs[sess[a]], sigs[sess[b]]
                if x != y and x[MD5] == y[MD5]:
                    hit.add(x)
    if lost is None:
        return bool(hit)
    return bool(lost) and all(s in hit for s in lost)


def nontrivial(case, impl):
    n_sig = sum(1 for l in case if l.startswith("sig "))
    loads = [o for l, o in zip(case, impl) if l.startswith("load ")]
    if any(l.startswith("kind ") for l in case):
        return sum(1 for o in impl if o.startswith("ok accept=")) >= 2
    return n_sig >= 2 and any(o.startswith("ok") and len(o) > 4 for o in loads)


def classify(case, impl, model, k):
    fmt = "?"
    for l in case[:k + 1]:
        w = l.split()
        if w and w[0] in ("zip", "dir", "sqldb", "sigfile", "sbt", "lca"):
            fmt = w[0]
    op = case[k].split()[0] if k < len(case) and case[k].split() else "?"
    if op in ("kind", "conv", "sig"):
        return f"C10:corr:{op}"
    return f"C10:corr:{fmt}:{op}"
