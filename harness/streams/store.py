"""The `store` correspondence stream (C10): a set of signatures is saved to one collection format in
1-3 create-then-append sessions, then inspected (members, manifest, len) and reloaded in every way
(generic loader, standalone manifest, path list, directory).

Op lines (decimal integers; names / file names / md5 are integers, the adapter maps them to strings):

  sig <i> <name> <filename> <ksize> <mol> <num> <scaled> <seed> <track> <md5> [h:a ...]
  zip|dir|sqldb <sessions>        sessions: "0,1|2|-"  (indices into the sig table, "-" = empty session)
  sigfile <gz> <sessions>
  sbt <list>                      lca <ksize> <mol> <scaled> <maxhash> <list>
  members | manifest | len
  rebuild                         (zip) the manifest `get_manifest(idx, rebuild=True)` builds (= `sourmash sig manifest`)
  locs                            (SBT) number of manifest rows, number of distinct locations
  load generic|standalone|standalone-sql|pathlist|directory
  mk <slot> <zip|dir|sig|siggz|sqldb> <sessions>      a collection in the command-line workspace (a/b<slot>/...)
  cat <outfmt> <unique> <fromfile> <slots>            `sourmash sig cat` in-process -> becomes the current collection
  split <slots>                                       `sourmash sig split --output-dir` -> current collection
  collect <csv|sql> <abs|rel|cwd|cwdsub> <slots>      `sourmash sig collect [--abspath|--relpath]`; the manifest becomes
                                                      the current collection, loaded by absolute path from another cwd
  sigmanifest <slot> <rebuild> <csv|sql>              `sourmash sig manifest [--no-rebuild-manifest]`, rows of the output
  fileinfo <slot>                                     `sourmash sig fileinfo --json-out`: counts and sketch groups
  load partial <i,j,..>                               a standalone manifest listing only those manifest rows (mod len)
  derive <j> <i> down <scaled> <maxhash> <md5> | flat | rename <name> <filename>   signature j from signature i
  noout <list>                    SaveSignaturesToLocation(None): counts, writes nothing
  stdio <list>                    saved to `-` (stdout), read back from the JSON text and through the stdin loader
  sbtjson <list>                  an SBT saved as .sbt.json + .sbt.<name>/ (FSStorage)
  sbtresave <json|zip> <samename|othername|otherdir|zip> <list> <extra>   SBT saved, loaded, extended, saved elsewhere; source deleted
  lcasql <ksize> <mol> <scaled> <maxhash> <list>      an LCA database saved in SQLite format
  load nomanifest                 (zip) ZipFileLinearIndex.load(use_manifest=False)
  nested <l1> <l2> <l3> <junk> <force>   a directory tree a.sig / sub/b.sig.gz / sub/deep/c.zip / sub/readme.txt [/ junk.sig]
  sqlapi <list> <extra>            a .sqldb written by the saver, then SqliteIndex.create(append=True).insert(extra)
  lateadd <zip|sqldb|sig|dir> <list> <extra>   one session, close(), then add(extra) on the closed saver
  kind <file kind>                which registered loaders accept a real file of that kind, and who wins
  conv <x>                        convert_hash_to(x), convert_hash_from(convert_hash_to(x))

Observation lines starting with `ok~` hold an unordered `;`-separated bag (both sides are sorted before
the comparison); a model md5 of `-` (LCA databases rebuild sketches, md5 is not modelled there) matches
any md5 on the implementation side -- the oracle recomputes it.
"""
import os
import sys
from collections import Counter

sys.path.insert(0, os.path.dirname(os.path.dirname(os.path.abspath(__file__))))
import common  # noqa: E402
from streams.mh import mh_for_scaled  # noqa: E402

MODULE = "store"
ADAPTER = "store_impl.py"
U64 = 2 ** 64 - 1

KINDS = ["sigJson", "sigGz", "directory", "zipColl", "sqldbIndex", "sqlManifest", "csvManifest", "pathlist",
         "sbtZip", "sbtJson", "lcaJson", "lcaSqldb", "fasta", "emptyText", "missing"]


# ---------------------------------------------------------------------------------------------
# generator

def md5_of(ksize, mol, mins):
    return int(common.md5_of_pre(ksize if mol == 0 else ksize * 3, sorted(mins)), 16)


def sig_line(i, s):
    hs = " ".join(f"{h}:{a}" for h, a in s["hashes"])
    return (f"sig {i} {s['name']} {s['filename']} {s['ksize']} {s['mol']} {s['num']} {s['scaled']} {s['seed']} "
            f"{int(s['track'])} {s['md5']}" + (" " + hs if hs else ""))


def gen_sigs(rng, flavour, n):
    base_scaled = rng.choice([1, 1, 1, 1, 2, 10, 1000])
    M = mh_for_scaled(base_scaled)
    cands = [0, 1, 2, 3, 5, 7, 11, 2 ** 63 - 1, 2 ** 63, 2 ** 63 + 5, U64, U64 - 1, M, M - 1, M // 2, M // 3]
    cands = sorted({c for c in cands if 0 <= c <= M})
    contents = []
    for _ in range(rng.randint(1, 3)):
        k = rng.choice([0, 1, 2, 3, 3, 4, 6])
        contents.append(sorted(rng.sample(cands, min(k, len(cands)))))
    if rng.random() < 0.4:
        contents.append([])
    names = [rng.randint(1, 5) for _ in range(3)] + ([0] if flavour != "lca" and rng.random() < 0.3 else [])
    sigs = []
    for _ in range(n):
        r = rng.random()
        ksize, mol, num, scaled, track, seed = 21, 0, 0, base_scaled, False, 42
        mins = list(rng.choice(contents))
        if r < 0.10:
            track = True
        elif r < 0.17:
            num, scaled = rng.choice([3, 5, 500]), 0
            mins = sorted(rng.sample(cands, min(len(cands), rng.randint(0, min(num, 4)))))
        elif r < 0.24:
            scaled = base_scaled * 2
            M2 = mh_for_scaled(scaled)
            mins = [h for h in mins if h <= M2]
        elif r < 0.29:
            ksize, mol = rng.choice([(31, 0), (7, 1), (7, 2), (7, 3)])
        if flavour == "sqlseed" and rng.random() < 0.3:
            seed = 43
        abund = [rng.choice([1, 1, 2, 3, 2 ** 32]) for _ in mins] if track else [1] * len(mins)
        s = dict(name=rng.choice(names), filename=rng.choice([0, 0, 0, 7]), ksize=ksize, mol=mol, num=num,
                 scaled=scaled, seed=seed, track=track, hashes=list(zip(mins, abund)))
        s["md5"] = md5_of(ksize, mol, mins)
        sigs.append(s)
    return sigs, base_scaled


def gen_sessions(rng, n, nsess, dup_bias=0.15):
    if n == 0:
        return [[] for _ in range(nsess)]
    out = []
    for _ in range(nsess):
        k = rng.choice([0, 1, 2, 2, 3, 3, 4, 5])
        sess = [rng.randrange(n) for _ in range(k)]
        if sess and rng.random() < dup_bias:
            sess.append(rng.choice(sess))       # an exact duplicate inside the session
        out.append(sess)
    return out


def sess_str(sessions):
    return "|".join(",".join(str(i) for i in s) if s else "-" for s in sessions)


CLI_FMTS = ["zip", "zip", "dir", "sig", "siggz", "sqldb"]


def gen_cli_case(rng, flavour):
    n = rng.choice([3, 4, 5, 6, 8])
    sigs, base_scaled = gen_sigs(rng, "cli", n)
    # same hashes under another name: the md5 groups the command line routes must keep apart
    for _ in range(rng.choice([1, 1, 2])):
        a = rng.randrange(len(sigs))
        b = dict(sigs[a])
        b["name"] = sigs[a]["name"] % 5 + 1 + rng.choice([0, 5])
        sigs.append(b)
    # no exact duplicates among the defined signatures (a slot never holds the same signature twice)
    seen, uniq = set(), []
    for sg in sigs:
        key = (sg["name"], sg["filename"], sg["md5"], sg["ksize"], sg["mol"], sg["num"], sg["scaled"], sg["seed"],
               sg["track"], tuple(sg["hashes"]))
        if key not in seen:
            seen.add(key)
            uniq.append(sg)
    sigs = uniq
    n = len(sigs)
    lines = [sig_line(i, sg) for i, sg in enumerate(sigs)]
    nslots = rng.choice([2, 3, 3, 4])
    fmts = []
    for k in range(nslots):
        fmt = rng.choice(CLI_FMTS)
        fmts.append(fmt)
        members = rng.sample(range(n), rng.randint(1, min(n, 4)))
        if fmt in ("zip", "dir", "sqldb") and len(members) >= 2 and rng.random() < 0.5:
            cut = rng.randint(1, len(members) - 1)
            sess = [members[:cut], members[cut:]]
        else:
            sess = [members]
        lines.append(f"mk {k} {fmt} " + sess_str(sess))
    slots = list(range(nslots))
    pick = lambda: ",".join(str(x) for x in rng.sample(slots, rng.randint(1, nslots)))
    if flavour == "cli_cat":
        out = rng.choice(["zip", "zip", "dir", "sig", "siggz", "sqldb"])
        lines.append(f"cat {out} {int(rng.random() < 0.25)} {int(rng.random() < 0.4)} {pick()}")
        if out in ("zip", "dir"):
            lines.append("members")
        lines += ["manifest", "len", "load generic"]
        if out in ("zip", "sig", "siggz", "sqldb") and rng.random() < 0.4:
            lines.append("load standalone")
    elif flavour == "cli_collect":
        mode = rng.choice(["abs", "abs", "rel", "rel", "cwd", "cwdsub"])
        lines.append(f"collect {rng.choice(['csv', 'csv', 'sql'])} {mode} {pick()}")
        lines += ["manifest", "len", "load generic"]
    else:
        lines.append(f"split {pick()}")
        lines += ["manifest", "len", "load generic"]
        for k in slots:
            if fmts[k] in ("zip", "dir") and rng.random() < 0.7:
                lines.append(f"sigmanifest {k} {rng.randrange(2)} {rng.choice(['csv', 'csv', 'sql'])}")
            if rng.random() < 0.7:
                lines.append(f"fileinfo {k}")
    return lines


# two single-hash DNA k=21 sketches whose md5 share the first 8 hex digits (found by search; checked at import)
PREFIX_TWINS = [(41390, 74148), (45387, 83664)]
for _a, _b in PREFIX_TWINS:
    assert md5_of(21, 0, [_a]) >> 96 == md5_of(21, 0, [_b]) >> 96 and md5_of(21, 0, [_a]) != md5_of(21, 0, [_b])


def gen_partial_case(rng):
    """a standalone manifest that lists only PART of a collection and splits an md5 group (same hashes,
    different names) and, half of the time, an (identifier, md5[:8]) group (same name, md5 differing after 8 digits)"""
    n = rng.choice([3, 4, 5, 6])
    sigs, _ = gen_sigs(rng, "zip", n)
    a = rng.randrange(n)
    for extra in range(rng.choice([1, 2])):
        b = dict(sigs[a])
        b["name"] = sigs[a]["name"] % 5 + 1 + 5 * extra
        sigs.append(b)
    twins = None
    if rng.random() < 0.5:
        h1, h2 = rng.choice(PREFIX_TWINS)
        nm = rng.randint(1, 5)
        for h in (h1, h2):
            sigs.append(dict(name=nm, filename=0, ksize=21, mol=0, num=0, scaled=1, seed=42, track=False,
                             hashes=[(h, 1)], md5=md5_of(21, 0, [h])))
        twins = (len(sigs) - 2, len(sigs) - 1)
    lines = [sig_line(i, sg) for i, sg in enumerate(sigs)]
    order = list(range(len(sigs)))
    rng.shuffle(order)
    if rng.random() < 0.2:
        order.append(rng.choice(order))
    fmt = rng.choice(["zip", "zip", "sigfile", "sqldb"])
    if fmt == "zip":
        cut = rng.randint(0, len(order))
        lines.append("zip " + sess_str([order[:cut], order[cut:]] if 0 < cut < len(order) else [order]))
    elif fmt == "sigfile":
        lines.append(f"sigfile {rng.randrange(2)} " + sess_str([order]))
    else:
        lines.append("sqldb " + sess_str([order]))
    lines += ["manifest", "len", "load generic"]
    group = [pos for pos, i in enumerate(order) if sigs[i]["md5"] == sigs[a]["md5"]]
    for _ in range(rng.choice([1, 2, 3])):
        listed = set(rng.sample(range(len(order)), rng.randint(0, len(order) - 1)))
        if len(group) >= 2:                       # split the group: one in, one out
            keep = rng.choice(group)
            drop = rng.choice([g for g in group if g != keep])
            listed.add(keep)
            listed.discard(drop)
        if twins is not None:                     # split the md5-prefix twins as well
            tp = [pos for pos, i in enumerate(order) if i in twins]
            if len(tp) == 2:
                rng.shuffle(tp)
                listed.add(tp[0])
                listed.discard(tp[1])
        lines.append("load partial " + (",".join(str(x) for x in sorted(listed)) if listed else "-"))
    return lines


def gen_periph_case(rng):
    """peripheral routes: signatures derived by downsampling / flattening / renaming before they are saved, the
    no-output and stdout savers, SBT on the file system, LCA in SQLite format, manifest-less zip reading"""
    n = rng.choice([3, 4, 5])
    sigs, base_scaled = gen_sigs(rng, "zip", n)
    lines = [sig_line(i, sg) for i, sg in enumerate(sigs)]
    for _ in range(rng.choice([1, 2, 3])):
        i = rng.randrange(len(sigs))
        src = sigs[i]
        j = len(sigs)
        how = rng.choice(["down", "down", "flat", "rename"])
        new = dict(src)
        if how == "down":
            if src["num"] or not src["scaled"]:
                new_scaled = rng.choice([2, 10])
                lines.append(f"derive {j} {i} down {new_scaled} {mh_for_scaled(new_scaled)} 0")
                continue                     # refused: a num sketch cannot be downsampled by scaled
            new_scaled = src["scaled"] * rng.choice([1, 2, 4, 1000])
            M = mh_for_scaled(new_scaled)
            new["scaled"] = new_scaled
            new["hashes"] = [(h, a) for h, a in src["hashes"] if h <= M]
            new["md5"] = md5_of(src["ksize"], src["mol"], [h for h, _ in new["hashes"]])
            lines.append(f"derive {j} {i} down {new_scaled} {M} {new['md5']}")
        elif how == "flat":
            new["track"] = False
            new["hashes"] = [(h, 1) for h, _ in src["hashes"]]
            lines.append(f"derive {j} {i} flat")
        else:
            new["name"], new["filename"] = rng.randint(1, 9), rng.choice([7, 8])
            lines.append(f"derive {j} {i} rename {new['name']} {new['filename']}")
        sigs.append(new)
    n = len(sigs)
    some = lambda k: ",".join(str(x) for x in rng.sample(range(n), min(n, k)))
    lines.append(f"noout {some(rng.randint(1, 4))}")
    lines.append(f"stdio {some(rng.randint(1, 4))}")
    if rng.random() < 0.4:
        lines.append(f"nested {some(rng.randint(1, 3))} {some(rng.randint(1, 3))} {some(rng.randint(1, 2))} "
                     f"{int(rng.random() < 0.3)} {int(rng.random() < 0.4)}")
    if rng.random() < 0.4:
        lines.append(f"lateadd {rng.choice(['zip', 'sqldb', 'sig', 'dir'])} {some(rng.randint(1, 3))} {rng.randrange(n)}")
        lines += ["len", "load generic"]
    r = rng.random()
    if r < 0.35:
        lines.append("zip " + sess_str(gen_sessions(rng, n, rng.choice([1, 2]))))
        lines += ["members", "manifest", "len", "load generic", "load nomanifest"]
    elif r < 0.55:
        keyof = lambda sg: (sg["name"], sg["filename"], sg["md5"], sg["ksize"], sg["mol"], sg["num"], sg["scaled"],
                            sg["seed"], sg["track"], tuple(sg["hashes"]))
        distinct, seen = [], set()
        for i in rng.sample(range(n), n):
            if keyof(sigs[i]) not in seen:        # the file-system storage treats repeated leaves order-dependently
                seen.add(keyof(sigs[i]))
                distinct.append(i)
        if rng.random() < 0.6:
            cut = rng.randint(1, len(distinct))
            first, more = distinct[:cut], distinct[cut:][:rng.randint(0, 2)]
            lines.append(f"sbtresave {rng.choice(['json', 'json', 'zip'])} "
                         f"{rng.choice(['samename', 'samename', 'othername', 'otherdir', 'zip'])} "
                         + ",".join(str(x) for x in first) + " " + (",".join(str(x) for x in more) if more else "-"))
        else:
            lines.append("sbtjson " + ",".join(str(x) for x in distinct[:rng.randint(1, 5)]))
        lines += ["members", "manifest", "locs", "len", "load generic"]
    elif r < 0.75:
        named = [i for i in range(n) if sigs[i]["name"] != 0] or [0]
        db_scaled = rng.choice([base_scaled, base_scaled * 2, base_scaled * 4])
        pick = ",".join(str(x) for x in rng.sample(named, min(len(named), rng.randint(1, 5))))
        if any(sigs[int(x)]["name"] == 0 for x in pick.split(",")):
            return gen_periph_case(rng)
        lines.append(f"lcasql 21 0 {db_scaled} {mh_for_scaled(db_scaled)} {pick}")
        lines += ["manifest", "len", "load generic"]
    elif r < 0.87:
        lines.append(f"sqlapi {some(rng.randint(1, 4))} {rng.randrange(n)}")
        lines += ["manifest", "len", "load generic"]
    else:
        fmt = rng.choice(["sqldb", "dir", "sigfile"])
        sess = sess_str(gen_sessions(rng, n, 1))
        lines.append(f"sigfile {rng.randrange(2)} {sess}" if fmt == "sigfile" else f"{fmt} {sess}")
        lines += ["manifest", "len", "load generic", "load standalone"]
    return lines


def gen_case(rng, flavour):
    if flavour == "periph":
        return gen_periph_case(rng)
    if flavour in ("cli_cat", "cli_collect", "cli_misc"):
        return gen_cli_case(rng, flavour)
    if flavour == "partial":
        return gen_partial_case(rng)
    if flavour == "kind":
        return [f"kind {k}" for k in rng.sample(KINDS, 4)] + \
               [f"conv {rng.choice([0, 1, 2 ** 63 - 1, 2 ** 63, 2 ** 63 + 1, U64, rng.randint(0, U64)])}" for _ in range(4)]
    n = rng.choice([0, 1, 2, 3, 3, 4, 5, 6, 8, 10])
    sigs, base_scaled = gen_sigs(rng, flavour, n)
    if flavour == "zipappend" and n >= 2:
        # the boundary the property names: identical content under different names, in an append session
        a = rng.randrange(n)
        b = dict(sigs[a])
        b["name"] = sigs[a]["name"] % 5 + 1
        sigs.append(b)
        n += 1
    lines = [sig_line(i, s) for i, s in enumerate(sigs)]
    ways = ["generic"]
    if rng.random() < 0.5:
        ways.append("standalone")
    if rng.random() < 0.4:
        ways.append("pathlist")
    if flavour in ("zip", "zipappend"):
        nsess = rng.choice([1, 2, 2, 3])
        sessions = gen_sessions(rng, n, nsess)
        if flavour == "zipappend" and n >= 2 and nsess >= 2:
            sessions[-1] += [a, n - 1] if rng.random() < 0.7 else [n - 1]
            if rng.random() < 0.3:
                sessions[0].append(a)
        lines.append("zip " + sess_str(sessions))
        lines += ["members", "manifest", "len"]
        if rng.random() < 0.5:
            lines.append("rebuild")
        if rng.random() < 0.4:
            ways.append("standalone-sql")
    elif flavour in ("sqldb", "sqlseed"):
        sessions = gen_sessions(rng, n, rng.choice([1, 2, 3]))
        lines.append("sqldb " + sess_str(sessions))
        lines += ["manifest", "len"]
        if rng.random() < 0.3:
            ways.append("standalone-sql")
    elif flavour == "dir":
        sessions = gen_sessions(rng, n, rng.choice([1, 2]))
        lines.append("dir " + sess_str(sessions))
        lines += ["members", "manifest", "len"]
        ways.append("directory")
        if rng.random() < 0.3:
            ways.append("standalone-sql")
    elif flavour == "sigfile":
        sessions = gen_sessions(rng, n, 1)
        lines.append(f"sigfile {rng.randrange(2)} " + sess_str(sessions))
        lines += ["manifest", "len"]
        ways.append("directory")
    elif flavour == "sbt":
        sessions = gen_sessions(rng, n, 1)
        if not sessions[0]:
            sessions[0] = [0] if n else []
        if not sessions[0]:
            return gen_case(rng, "zip")
        lines.append("sbt " + sess_str(sessions))
        lines += ["members", "manifest", "locs", "len"]
    elif flavour == "lca":
        sessions = gen_sessions(rng, n, 1)
        db_scaled = rng.choice([base_scaled, base_scaled, base_scaled * 2, base_scaled * 4])
        lines.append(f"lca 21 0 {db_scaled} {mh_for_scaled(db_scaled)} " + sess_str(sessions))
        lines += ["manifest", "len"]
        ways = ["generic"] + (["pathlist"] if rng.random() < 0.3 else [])
    else:
        raise KeyError(flavour)
    lines += [f"load {w}" for w in ways]
    return lines


# ---------------------------------------------------------------------------------------------
# canonicalisation

def _canon(lines):
    out = []
    for l in lines:
        if l.startswith("ok~ "):
            items = l[4:].split(";") if l[4:] else []
            out.append("ok~ " + ";".join(sorted(items)))
        elif l == "ok~":
            out.append("ok~ ")
        else:
            out.append(l)
    return out


post_impl = _canon
post_model = _canon


def _wild(model_line, impl_line):
    """a model md5 of '-' (third '/'-field of a signature item) matches anything"""
    if not (model_line.startswith("ok~ ") and impl_line.startswith("ok~ ")):
        return False
    mi, ii = model_line[4:].split(";"), impl_line[4:].split(";")
    if len(mi) != len(ii):
        return False

    def strip(item):
        f = item.split("/")
        if len(f) >= 3:
            f[2] = "-"
        return "/".join(f)
    return sorted(strip(x) for x in ii) == sorted(mi)


def same(a, b):
    """a = implementation line, b = model line"""
    return a == b or ("/-/" in b and _wild(b, a))


# ---------------------------------------------------------------------------------------------
# the property oracle: written from the statement of C10, independent of the Lean model

def parse_sig_line(l):
    w = l.split()
    i, name, filename, ksize, mol, num, scaled, seed, track, md5 = [int(x) for x in w[1:11]]
    hashes = tuple(tuple(int(v) for v in x.split(":")) for x in w[11:])
    return i, (name, filename, md5, ksize, mol, num, scaled, seed, track, hashes)


def parse_sig_item(item):
    f = item.split("/")
    if len(f) != 10:
        return None
    try:
        hashes = tuple(tuple(int(v) for v in x.split(":")) for x in f[9].split(",")) if f[9] else ()
        return (int(f[0]), int(f[1]), int(f[2]), int(f[3]), int(f[4]), int(f[5]), int(f[6]), int(f[7]), int(f[8]), hashes)
    except ValueError:
        return None


def items_of(line):
    """observation line -> list of items, or None when it is not a list"""
    if line.startswith("ok~ "):
        body = line[4:]
    elif line.startswith("ok "):
        body = line[3:]
    elif line in ("ok", "ok~"):
        body = ""
    else:
        return None
    return body.split(";") if body else []


def parse_sessions(s):
    return [[] if p == "-" else [int(x) for x in p.split(",")] for p in s.split("|")]


def parse_refused(out):
    if not out.startswith("ok refused="):
        return None
    body = out[len("ok refused="):]
    res = set()
    for it in body.split(",") if body else []:
        pos = it.split(":")[0]
        si, j = pos.split(".")
        res.add((int(si), int(j)))
    return res


NAME, FILENAME, MD5, KSIZE, MOL, NUM, SCALED, SEED, TRACK, HASHES = range(10)


def row_of(sig):
    """what the statement says a manifest row must hold for this signature (all columns but the location)"""
    return (sig[MD5], sig[MD5] >> 96, sig[KSIZE], sig[MOL], sig[NUM], sig[SCALED], len(sig[HASHES]), sig[TRACK],
            sig[NAME], sig[FILENAME])


def key3(sig):
    """(name, md5, sorted hashes + abundances): what the statement compares"""
    return (sig[NAME], sig[MD5], sig[HASHES])


class Coll:
    def __init__(self, fmt):
        self.fmt = fmt
        self.sessions = []
        self.refused = set()
        self.db_scaled = None
        self.db_max = None
        self.db_k = None
        self.db_mol = None
        self.members = None
        self.rows = None
        self.ok = False
        self.unique_inputs = None      # `sig cat --unique`: the inputs (the choice among equal md5 is order dependent)
        self.sqlmf = False             # a SQLite-format standalone manifest
        self.mode = None               # sig collect: abs | rel | cwd | cwdsub
        self.sql = False               # an LCA database saved in SQLite format
        self.late = None               # (accepted silently?, signature) added after close()

    def adds(self):
        """[(session index, position, sig index)] in order, minus (for a single JSON file) overwritten sessions"""
        out = []
        for si, sess in enumerate(self.sessions):
            if self.fmt == "sigfile" and si != len(self.sessions) - 1:
                continue
            for j, i in enumerate(sess):
                out.append((si, j, i))
        return out


def lca_expected(sig, coll):
    kept = tuple((h, 1) for h, _ in sig[HASHES] if h <= coll.db_max)
    md5 = md5_of(sig[KSIZE], sig[MOL], [h for h, _ in kept])
    return (sig[NAME], 0, md5, sig[KSIZE], sig[MOL], 0, coll.db_scaled, 42, 0, kept)


def must_refuse(sig, coll, accepted_before):
    """documented restrictions of the format: this signature cannot be held"""
    if coll.fmt == "sqldb":
        if sig[NUM] != 0 or sig[TRACK]:
            return True
        if accepted_before and accepted_before[0][SCALED] != sig[SCALED]:
            return True
        return False
    if coll.fmt == "lca":
        if sig[KSIZE] != coll.db_k or sig[MOL] != coll.db_mol or sig[NUM] != 0 or sig[SCALED] == 0:
            return True
        if sig[SCALED] > coll.db_scaled:
            return True
        if any(s[NAME] == sig[NAME] for s in accepted_before):
            return True            # identifiers (names) are unique in an LCA database
        return False
    return False


def oracle(case, impl):
    bad = []
    sigs = {}
    slots = {}
    coll = None
    expected = None          # list of expected loaded signatures (format restrictions applied)
    stored = None            # the accepted signatures as given
    for k, (op, out) in enumerate(zip(case, impl)):
        w = op.split()
        if not w:
            continue
        if out.startswith("VIEW:") or out.startswith("HIST:"):
            what = out.split()[0]
            bad.append((k, "C10:" + ("view:" if out.startswith("VIEW:") else "history:") + what[5:].split(":")[0],
                        f"two routes to the same information disagree, or an earlier result changed, at `{op[:60]}`: {out[:160]}"))
            continue
        if w[0] == "derive":
            j, i = int(w[1]), int(w[2])
            if i not in sigs or out == "bad-op":
                continue
            src = sigs[i]
            if w[3] == "down":
                if not out.startswith("ok "):
                    if not (src[NUM] != 0 or src[SCALED] == 0 or int(w[4]) < src[SCALED]):
                        bad.append((k, "C10:derive-refused", f"downsampling refused without reason: {out}"))
                    continue
                M = int(w[5])
                new = src[:MD5] + (int(w[6]),) + src[KSIZE:SCALED] + (int(w[4]),) + src[SEED:HASHES] + \
                    (tuple(p for p in src[HASHES] if p[0] <= M),)
            elif w[3] == "flat":
                new = src[:TRACK] + (0, tuple((h, 1) for h, _ in src[HASHES]))
            else:
                new = (int(w[4]), int(w[5])) + src[MD5:]
            if out != f"ok md5={new[MD5]} n={len(new[HASHES])}":
                bad.append((k, "C10:derived-signature", f"`{op[:60]}` gave {out}, expected md5={new[MD5]} n={len(new[HASHES])}"))
                continue
            sigs[j] = new
            continue
        if w[0] == "nested":
            if out == "bad-op":
                continue
            l1, l2 = parse_sessions(w[1])[0], parse_sessions(w[2])[0]
            junk, force = w[4] == "1", w[5] == "1"
            it = items_of(out)
            if it is None:
                if not (junk and not force and out == "err ValueError"):
                    bad.append((k, "C10:load-failed:dir:nested", f"loading a directory tree raised: {out}"))
                continue
            want = Counter(sigs[i] for i in l1 + l2 if i in sigs)
            if Counter(parse_sig_item(x) for x in it) != want or (junk and not force):
                bad.append((k, "C10:load-mismatch:dir:nested",
                            "a directory tree must yield exactly the signatures of the .sig / .sig.gz files below it"))
            continue
        if w[0] == "lateadd":
            coll = None
            if not out.startswith("ok raised="):
                continue                            # a refused add inside the session (sqldb): loud
            fmt2 = {"sig": "sigfile"}.get(w[1], w[1])
            ids, extra = parse_sessions(w[2])[0], int(w[3])
            if any(i not in sigs for i in ids + [extra]):
                continue
            coll = Coll(fmt2)
            coll.ok = True
            coll.late = (out == "ok raised=0", sigs[extra])
            keys = list(ids) + ([extra] if out == "ok raised=0" else [])
            coll.sessions = [keys]
            stored = expected = [sigs[i] for i in keys]
            continue
        if w[0] == "noout":
            if out == "bad-op":
                continue
            ids = parse_sessions(w[1])[0]
            if out != f"ok n={len(ids)}":
                bad.append((k, "C10:no-output-saver", f"SaveSignaturesToLocation(None) after {len(ids)} adds: {out}"))
            continue
        if w[0] == "stdio":
            if out == "bad-op":
                continue
            ids = parse_sessions(w[1])[0]
            if any(i not in sigs for i in ids):
                continue
            it = items_of(out)
            got = [parse_sig_item(x) for x in it] if it is not None else None
            if got != [sigs[i] for i in ids if i in sigs]:
                bad.append((k, "C10:stdio-roundtrip", f"signatures written to `-` and read back differ: {out[:160]}"))
            continue
        if w[0] == "sig":
            i, s = parse_sig_line(op)
            sigs[i] = s
            if out != f"ok md5={s[MD5]} n={len(s[HASHES])}":
                bad.append((k, "skip:generator", f"signature not built as described: {out}"))
                return bad
            continue
        if w[0] == "mk":
            if out == "bad-op":
                continue
            sfmt = {"sig": "sigfile", "siggz": "sigfile"}.get(w[2], w[2])
            sc = Coll(sfmt)
            sc.sessions = parse_sessions(w[3])
            if any(i not in sigs for sess in sc.sessions for i in sess):
                continue
            ref = parse_refused(out)
            if ref is None:
                bad.append((k, f"C10:save-failed:{sfmt}", f"saving raised: `{op}` -> {out}"))
                continue
            acc = []
            for si, j, i in sc.adds():
                sg = sigs[i]
                need = must_refuse(sg, sc, acc)
                if (si, j) in ref:
                    if not need:
                        bad.append((k, f"C10:refused-valid:{sfmt}", f"signature {i} was refused by {sfmt} without reason"))
                    continue
                if need:
                    bad.append((k, f"C10:accepted-unrepresentable:{sfmt}", f"signature {i} cannot be held by {sfmt}"))
                acc.append(sg)
            slots[int(w[1])] = (sfmt, acc)
            continue
        if w[0] in ("cat", "split", "collect"):
            coll = None
            if out == "bad-op":
                continue
            ks = [int(x) for x in w[-1].split(",")]
            if any(kk not in slots for kk in ks):
                continue
            inputs = [sg for kk in ks for sg in slots[kk][1]]
            if any(not slots[kk][1] and slots[kk][0] in ("sigfile", "dir") for kk in ks):
                continue                # an empty .sig / directory input: C10.3, judged elsewhere
            if w[0] == "cat":
                ofmt = {"sig": "sigfile", "siggz": "sigfile"}.get(w[1], w[1])
                unique = w[2] == "1"
                probe = Coll(ofmt)
                accepted, refusal = [], False
                seen_md5 = set()
                for sg in inputs:
                    if unique and sg[MD5] in seen_md5:
                        continue
                    seen_md5.add(sg[MD5])
                    if must_refuse(sg, probe, accepted):
                        refusal = True
                    else:
                        accepted.append(sg)
                if parse_refused(out) is None:
                    if not (ofmt == "sqldb" and refusal and out == "err ValueError"):
                        bad.append((k, f"C10:cli-cat-failed:{ofmt}", f"`sourmash sig cat -o <{ofmt}>` failed: {out}"))
                    continue
                if ofmt == "sqldb" and refusal and not unique:
                    bad.append((k, "C10:accepted-unrepresentable:sqldb",
                                "sig cat into a .sqldb went through although an input cannot be held by SqliteIndex"))
                    continue
                coll = Coll(ofmt)
                coll.ok = True
                keys = []
                for j, sg in enumerate(inputs):
                    sigs[("cat", k, j)] = sg
                    keys.append(("cat", k, j))
                coll.sessions = [keys]
                if unique:
                    coll.unique_inputs = inputs
                    expected = None
                else:
                    expected = list(inputs)
            elif w[0] == "split":
                if parse_refused(out) is None:
                    bad.append((k, "C10:cli-split-failed", f"`sourmash sig split` failed: {out}"))
                    continue
                coll = Coll("split")
                coll.ok = True
                coll.sessions = [[]]
                expected = list(inputs)
            else:
                if parse_refused(out) is None:
                    bad.append((k, "C10:cli-collect-failed", f"`sourmash sig collect` failed: {out}"))
                    continue
                coll = Coll("mf")
                coll.ok = True
                coll.sessions = [[]]
                coll.sqlmf = w[1] == "sql"
                coll.mode = w[2]
                coll.groups = [list(slots[kk][1]) for kk in ks]
                expected = list(inputs)
            stored = expected
            continue
        if w[0] == "sigmanifest":
            kk = int(w[1])
            it = items_of(out)
            if kk not in slots or out == "bad-op":
                continue
            sfmt, acc = slots[kk]
            if it is None:
                bad.append((k, f"C10:cli-manifest-failed:{sfmt}", f"`sourmash sig manifest` failed: {out}"))
                continue
            rows = [tuple(int(x) if x.lstrip('-').isdigit() else x for x in r.split("|")[1:]) for r in it]
            bad += judge_rows(k, sfmt, rows, acc, rebuilt=(w[2] == "1"), what="sig manifest")
            continue
        if w[0] == "fileinfo":
            kk = int(w[1])
            it = items_of(out)
            if kk not in slots or out == "bad-op":
                continue
            sfmt, acc = slots[kk]
            if it is None:
                if not (sfmt in ("sigfile", "dir") and not acc):
                    bad.append((k, f"C10:cli-fileinfo-failed:{sfmt}", f"`sourmash sig fileinfo` failed: {out}"))
                continue
            want = [f"n={len(acc)}", f"total={sum(len(sg[HASHES]) for sg in acc)}"]
            grp = {}
            for sg in acc:
                key = (sg[KSIZE], sg[MOL], sg[SCALED], sg[NUM], int(sg[TRACK]))
                c, nh = grp.get(key, (0, 0))
                grp[key] = (c + 1, nh + len(sg[HASHES]))
            want += [f"g:{a}/{b}/{c}/{d}/{e}/{v[0]}/{v[1]}" for (a, b, c, d, e), v in grp.items()]
            if sorted(want) != sorted(it):
                bad.append((k, f"C10:fileinfo-counts:{sfmt}",
                            f"sig fileinfo reports {sorted(it)[:4]} for a collection holding {sorted(want)[:4]}"))
            continue
        if w[0] == "sqlapi":
            w = ["sqldb", w[1] + "|" + w[2]]
        if w[0] == "sbtresave":
            w = ["sbtjson", ",".join(x for x in (w[3], w[4]) if x != "-")]
        if w[0] in ("zip", "dir", "sqldb", "sigfile", "sbt", "lca", "sbtjson", "lcasql"):
            coll = Coll({"sbtjson": "sbt", "lcasql": "lca"}.get(w[0], w[0]))
            coll.sql = w[0] == "lcasql"
            if w[0] == "sigfile":
                coll.sessions = parse_sessions(w[2])
            elif w[0] in ("lca", "lcasql"):
                coll.db_k, coll.db_mol, coll.db_scaled, coll.db_max = int(w[1]), int(w[2]), int(w[3]), int(w[4])
                coll.sessions = parse_sessions(w[5])
            else:
                coll.sessions = parse_sessions(w[1])
            ref = parse_refused(out)
            if out == "bad-op" or any(i not in sigs for sess in coll.sessions for i in sess):
                coll = None
                continue
            if ref is None and coll.sql and out == "err ValueError" and \
                    all(must_refuse(sigs[i], coll, []) for i in coll.sessions[0] if i in sigs):
                bad.append((k, "C10:empty-collection-unloadable:lcasql",
                            "an LCA database holding no signature cannot be saved in SQLite format (ValueError, loud)"))
                coll = None
                continue
            if ref is None:
                bad.append((k, f"C10:save-failed:{coll.fmt}", f"saving raised: `{op}` -> {out}"))
                coll = None
                continue
            coll.refused = ref
            coll.ok = True
            stored, expected = [], []
            for si, j, i in coll.adds():
                s = sigs[i]
                need = must_refuse(s, coll, stored)
                if (si, j) in ref:
                    if not need:
                        bad.append((k, f"C10:refused-valid:{coll.fmt}",
                                    f"signature {i} satisfies the documented restrictions of {coll.fmt} but was refused"))
                    continue
                if need:
                    bad.append((k, f"C10:accepted-unrepresentable:{coll.fmt}",
                                f"signature {i} cannot be held by {coll.fmt} (num/abundance/scaled/ksize/duplicate name) "
                                f"but was accepted silently"))
                stored.append(s)
                expected.append(lca_expected(s, coll) if coll.fmt == "lca" else s)
            continue
        if coll is None or not coll.ok:
            continue
        fmt = coll.fmt
        if w[0] == "members":
            it = items_of(out)
            coll.members = it
            continue
        if w[0] == "manifest":
            if out == "ok none":
                coll.rows = None
                continue
            it = items_of(out)
            if it is None:
                if not (fmt in ("sigfile", "dir", "split") and not expected and out == "err ValueError"):
                    bad.append((k, f"C10:manifest-unreadable:{fmt}", f"manifest could not be read: {out}"))
                continue
            if fmt == "lca" and coll.sql:
                want = Counter(f"{sg[NAME]}|{len(sg[HASHES])}|{sg[SCALED]}|{sg[KSIZE]}|{sg[MOL]}" for sg in expected)
                if want != Counter(it):
                    bad.append((k, "C10:manifest-columns:lcasql", f"rows {sorted(it)[:3]} for signatures {sorted(want)[:3]}"))
                continue
            rows = []
            for r in it:
                f = r.split("|")
                rows.append((f[0],) + tuple(int(x) if x.lstrip('-').isdigit() else x for x in f[1:]))
            coll.rows = rows
            if coll.unique_inputs is not None:
                continue                # judged on the reload
            want = Counter(row_of(s) for s in expected)
            got = Counter(r[1:] for r in rows)
            if want != got and coll.sqlmf:
                miss = list((want - got).elements())
                kept = {r[1] for r in rows}
                if not (got - want) and all(m[0] in kept for m in miss):
                    bad.append((k, "C10:sql-manifest-drops-same-md5-rows",
                                f"the SQLite-format manifest written by sig collect lacks the rows {miss[:2]} "
                                "(one row per (location, md5): UNIQUE + INSERT OR IGNORE)"))
                    continue
            if want != got:
                bad.append((k, f"C10:manifest-columns:{fmt}",
                            f"manifest rows differ from the stored signatures: missing {list((want - got).elements())[:2]} "
                            f"unexpected {list((got - want).elements())[:2]}"))
            if fmt in ("zip", "dir") and coll.members is not None:
                mem = [m for m in coll.members if m != "MANIFEST"]
                locs = [r[0] for r in rows]
                dangling = [l for l in locs if l not in mem]
                orphan = [m for m in mem if m not in locs]
                if dangling:
                    bad.append((k, f"C10:manifest-dangling-location:{fmt}", f"rows point to missing members {dangling[:3]}"))
                if orphan:
                    bad.append((k, f"C10:orphan-member:{fmt}", f"members not listed by the manifest {orphan[:3]}"))
                if not dangling and not orphan and len(set(locs)) != len(locs):
                    # several rows, one member
                    groups = {}
                    for r in rows:
                        groups.setdefault(r[0], []).append(r[1:])
                    differing = [l for l, g in groups.items() if len(set(g)) > 1]
                    identical = [l for l, g in groups.items() if len(g) > len(set(g))]
                    msg = f"{len(locs)} manifest rows share {len(set(locs))} members"
                    if differing:
                        sig = "C10:zip-append-same-md5-overwrite" if fmt == "zip" and _d10_shape(coll, sigs) \
                            else f"C10:manifest-vs-members:{fmt}"
                        bad.append((k, sig, msg + f": rows of DIFFERENT signatures point at {differing[:2]}"))
                    if identical:
                        bad.append((k, f"C10:exact-duplicate-collapsed:{fmt}",
                                    msg + " (the same signature saved twice is one member, two rows)"))
            continue
        if w[0] == "rebuild":
            it = items_of(out)
            if it is None or out == "ok -":
                if out != "ok -":
                    bad.append((k, f"C10:manifest-unreadable:{fmt}:rebuild", f"manifest could not be rebuilt: {out}"))
                continue
            rows = []
            for r in it:
                f = r.split("|")
                rows.append((f[0],) + tuple(int(x) if x.lstrip('-').isdigit() else x for x in f[1:]))
            # a rebuilt manifest describes the members: one row per stored signature, exact duplicates once
            want = Counter(set(row_of(s) for s in expected)) if fmt == "zip" else Counter(row_of(s) for s in expected)
            got = Counter(r[1:] for r in rows)
            if want != got:
                miss = list((want - got).elements())
                extra = list((got - want).elements())
                md5s_kept = {r[1] for r in rows}
                if fmt == "zip" and not extra and miss and all(m[0] in md5s_kept for m in miss):
                    bad.append((k, "C10:zip-rebuilt-manifest-skips-suffixed-members",
                                f"the manifest rebuilt from the zip (sig manifest) lacks {miss[:2]}: members named "
                                "<md5>.sig.gz_<n> (same md5 as an earlier member) do not end in .sig/.sig.gz and are never opened"))
                else:
                    bad.append((k, f"C10:manifest-columns:{fmt}:rebuild",
                                f"rebuilt manifest differs from the stored signatures: missing {miss[:2]} unexpected {extra[:2]}"))
            continue
        if w[0] == "len":
            continue            # judged together with the load below
        if w[0] == "load" and w[1] == "nomanifest":
            it = items_of(out)
            if out == "ok -" or expected is None:
                continue
            if it is None:
                bad.append((k, f"C10:load-failed:{fmt}:nomanifest", f"reading the zip without its manifest raised: {out}"))
                continue
            loaded = [parse_sig_item(x) for x in it]
            miss = [sg for sg in set(expected) if sg not in loaded]
            extra = [sg for sg in loaded if sg not in expected]
            kept = {sg[MD5] for sg in loaded}
            if extra or any(sg[MD5] not in kept for sg in miss):
                bad.append((k, "C10:load-mismatch:zip:nomanifest", f"missing {[key3(x) for x in miss][:2]} unexpected {[key3(x) for x in extra][:2]}"))
            elif miss:
                bad.append((k, "C10:zip-rebuilt-manifest-skips-suffixed-members",
                            f"read without its manifest the zip lacks {[key3(x) for x in miss][:2]}: members named <md5>.sig.gz_<n> "
                            "do not end in .sig/.sig.gz and are never opened"))
            continue
        if w[0] == "load" and w[1] == "partial":
            it = items_of(out)
            if out == "ok -" or expected is None:
                continue
            if it is None or not it or not it[0].startswith("len="):
                bad.append((k, f"C10:load-failed:{fmt}:partial", f"reloading through a partial manifest raised: {out}"))
                continue
            n_listed = int(it[0][4:])
            loaded = [parse_sig_item(x) for x in it[1:]]
            idxs = [int(x) for x in w[2].split(",")] if w[2] != "-" else []
            listed = [expected[i % len(expected)] for i in idxs] if expected else []
            distinct = [expected[i] for i in sorted({i % len(expected) for i in idxs})] if expected else []
            lw, lg = Counter(distinct), Counter(loaded)
            keyp = lambda sg: (sg[NAME], sg[MD5])       # a manifest row stands for (name, md5)
            listed_keys = {keyp(sg) for sg in listed}
            extra = [sg for sg in (lg - lw).elements() if keyp(sg) not in listed_keys]
            miss = [sg for sg in (lw - lg).elements() if not (fmt == "zip" and lg[sg] >= 1)]
            if extra:
                bad.append((k, "C10:partial-manifest-returns-unlisted",
                            f"a standalone manifest listing {len(listed)} of the collection's signatures returns unlisted ones: "
                            f"{[key3(sg) for sg in extra][:2]} (not the name and md5 of any listed row)"))
            if miss:
                bad.append((k, f"C10:partial-manifest-load-mismatch:{fmt}",
                            f"listed but not returned: {[key3(sg) for sg in miss][:2]}"))
            if n_listed != len(listed):
                bad.append((k, f"C10:partial-manifest-len:{fmt}", f"len() = {n_listed} for a manifest of {len(listed)} rows"))
            continue
        if w[0] == "load" and coll.unique_inputs is not None:
            it = items_of(out)
            if it is None:
                if fmt in ("sigfile", "dir") and not coll.unique_inputs and out == "err ValueError":
                    bad.append((k, f"C10:empty-collection-unloadable:{fmt}",
                                f"an empty set of signatures saved as {fmt} cannot be reloaded ({w[1]}): {out}"))
                else:
                    bad.append((k, f"C10:load-failed:{fmt}:{w[1]}", f"reloading ({w[1]}) raised: {out}"))
                continue
            loaded = [parse_sig_item(x) for x in it]
            inp = Counter(coll.unique_inputs)
            md5s = [sg[MD5] for sg in loaded]
            if any(sg not in inp for sg in loaded) or len(set(md5s)) != len(md5s) or \
                    set(md5s) != {sg[MD5] for sg in coll.unique_inputs}:
                bad.append((k, f"C10:cli-cat-unique:{fmt}",
                            "sig cat --unique must keep exactly one of the input signatures per md5"))
            continue
        if w[0] == "load" and fmt == "mf" and coll.mode == "cwdsub":
            if items_of(out) is None and out == "err ValueError":
                bad.append((k, "C10:collect-default-locations-relative-to-cwd",
                            "sig collect without --abspath/--relpath writes locations relative to the working directory, "
                            "StandaloneManifestIndex resolves them relative to the manifest's directory: a manifest written "
                            "into another directory cannot be loaded (ValueError, loud)"))
                continue
        if w[0] == "load":
            it = items_of(out)
            if it is None:
                if fmt in ("sigfile", "dir", "split") and not expected and out == "err ValueError":
                    bad.append((k, f"C10:empty-collection-unloadable:{'dir' if fmt == 'split' else fmt}",
                                f"an empty set of signatures saved as {fmt} cannot be reloaded ({w[1]}): {out} "
                                "(refused loudly: a JSON file holding [] is 'too short', a directory without files has 'no signatures')"))
                else:
                    bad.append((k, f"C10:load-failed:{fmt}:{w[1]}", f"reloading ({w[1]}) raised: {out}"))
                continue
            loaded = [parse_sig_item(x) for x in it]
            if any(x is None for x in loaded):
                bad.append((k, f"C10:load-unparsable:{fmt}", out[:200]))
                continue
            if fmt == "lca":
                want = Counter(key3(s) for s in expected)
                got = Counter(key3(s) for s in loaded)
            else:
                want = Counter(expected)
                got = Counter(loaded)
            if want != got:
                bad.append(classify_loss(k, coll, sigs, expected, loaded,
                                         f"reloaded ({w[1]}) multiset differs from the stored one: missing "
                                         f"{[key3(s) if len(s) == 10 else s for s in (want - got).elements()][:2]} unexpected "
                                         f"{[key3(s) if len(s) == 10 else s for s in (got - want).elements()][:2]}"))
            # len() of the collection, observed earlier in the case
            for kk in (range(k - 1, -1, -1) if w[1] == "generic" else []):
                if case[kk].split()[0] == "len":
                    lo = impl[kk]
                    if lo.startswith("ok ") and lo[3:].isdigit() and int(lo[3:]) != len(loaded):
                        bad.append(classify_loss(kk, coll, sigs, expected, loaded,
                                                 f"len() = {lo[3:]} but {len(loaded)} signatures are returned"))
                    break
                if case[kk].split()[0] in ("zip", "dir", "sqldb", "sigfile", "sbt", "lca", "cat", "split", "collect", "mk",
                                           "sbtjson", "lcasql", "sqlapi", "lateadd", "sbtresave"):
                    break
            # manifest rows <-> returned signatures
            if coll.rows is not None and w[1] == "generic":
                a = Counter(r[1:] for r in coll.rows)
                b = Counter(row_of(s) for s in loaded)
                if a != b and want == got and not coll.sqlmf:
                    bad.append((k, f"C10:manifest-vs-members:{fmt}", "manifest rows and returned signatures differ"))
            continue
    # de-duplicate
    seen, out = set(), []
    for b in bad:
        if (b[0], b[1]) not in seen:
            seen.add((b[0], b[1]))
            out.append(b)
    return out


def judge_rows(k, fmt, rows, acc, rebuilt, what):
    """rows (without location) of a manifest written for a collection holding `acc`"""
    want = Counter(row_of(sg) for sg in acc)
    got = Counter(rows)
    if want == got:
        return []
    miss = list((want - got).elements())
    extra = list((got - want).elements())
    kept = {r[0] for r in rows}
    if fmt == "zip" and rebuilt and not extra and miss and all(m[0] in kept for m in miss):
        return [(k, "C10:zip-rebuilt-manifest-skips-suffixed-members",
                 f"the manifest rebuilt from the zip ({what}) lacks {miss[:2]}: members named <md5>.sig.gz_<n> "
                 "(same md5 as an earlier member) do not end in .sig/.sig.gz and are never opened")]
    return [(k, f"C10:manifest-columns:{fmt}:{what.replace(' ', '-')}",
             f"{what} output differs from the stored signatures: missing {miss[:2]} unexpected {extra[:2]}")]


def classify_loss(k, coll, sigs, expected, loaded, msg):
    """give a loss its specific signature"""
    fmt = coll.fmt
    if coll.late is not None and coll.late[0] and loaded is not None:
        want, got = Counter(expected), Counter(loaded)
        if not (got - want) and list((want - got).elements()) == [coll.late[1]]:
            return (k, f"C10:add-after-close-silently-dropped:{fmt}",
                    msg + " (add() on a closed saver was accepted without an error and the signature was never written)")
    if coll.sqlmf and msg.startswith("len()"):
        return (k, "C10:sql-manifest-drops-same-md5-rows",
                msg + " (the SQLite-format manifest lacks rows: one per (location, md5))")
    if loaded is None:
        # two manifest rows on one member
        exp = Counter(expected)
        if fmt in ("zip", "sbt") and any(c > 1 for c in exp.values()) and not _d10_shape(coll, sigs):
            return (k, f"C10:exact-duplicate-collapsed:{fmt}", msg + " (the same signature saved twice is one member, two rows)")
        if fmt == "zip" and _d10_shape(coll, sigs):
            return (k, "C10:zip-append-same-md5-overwrite", msg)
        return (k, f"C10:manifest-vs-members:{fmt}", msg)
    if fmt == "lca":
        want = Counter(key3(s) for s in expected)
        got = Counter(key3(s) for s in loaded)
        miss = list((want - got).elements())
        extra = list((got - want).elements())
        if not extra and miss and all(len(m[2]) == 0 for m in miss):
            return (k, "C10:lca-empty-sketch-vanishes", msg + " (sketches that are empty at the database's scaled are counted by len() but never returned)")
        return (k, "C10:load-mismatch:lca", msg)
    want, got = Counter(expected), Counter(loaded)
    miss = want - got
    extra = got - want
    if ("(standalone-sql)" in msg or coll.sqlmf) and not extra and miss:
        kept_md5 = {s[MD5] for s in loaded}
        gone = [s for s in miss if got[s] == 0]
        fewer = [s for s in miss if got[s] > 0]
        if all(s[MD5] in kept_md5 for s in gone):
            if gone:
                return (k, "C10:sql-manifest-drops-same-md5-rows",
                        msg + " (a SQLite-format manifest keeps one row per (location, md5): UNIQUE + INSERT OR IGNORE; "
                              "other signatures with that md5 in the same collection are not listed and not returned)")
            if fewer and fmt in ("zip", "sbt"):
                return (k, f"C10:exact-duplicate-collapsed:{fmt}",
                        msg + " (the same signature saved twice is returned once; the manifest lists it twice)")
    if fmt == "sqldb":
        noseed = lambda s: s[:SEED] + (42,) + s[SEED + 1:]
        if Counter(noseed(s) for s in expected) == Counter(noseed(s) for s in loaded):
            return (k, "C10:sqlite-seed-not-stored", msg + " (only the seed differs: SqliteIndex records seed 42 for every sketch)")
    if fmt in ("zip", "sbt") and not extra:
        if all(got[s] >= 1 for s in miss):
            return (k, f"C10:exact-duplicate-collapsed:{fmt}", msg + " (the same signature saved twice is returned once; the manifest lists it twice)")
        if fmt == "zip" and _d10_shape(coll, sigs, lost=[s for s in miss if got[s] == 0]):
            return (k, "C10:zip-append-same-md5-overwrite",
                    msg + " (two signatures with equal md5 added in one append session share a member name; the first is overwritten)")
    return (k, f"C10:load-mismatch:{fmt}", msg)


def _d10_shape(coll, sigs, lost=None):
    """an append session (index >= 1) adds two different signatures with the same md5 (and, when `lost` is
    given, every lost signature is the earlier one of such a pair)"""
    hit = set()
    for si, sess in enumerate(coll.sessions):
        if si == 0:
            continue
        for a in range(len(sess)):
            for b in range(a + 1, len(sess)):
                x, y = sigs[sess[a]], sigs[sess[b]]
                if x != y and x[MD5] == y[MD5]:
                    hit.add(x)
    if lost is None:
        return bool(hit)
    return bool(lost) and all(s in hit for s in lost)


def nontrivial(case, impl):
    n_sig = sum(1 for l in case if l.startswith("sig "))
    loads = [o for l, o in zip(case, impl) if l.startswith("load ")]
    if any(l.startswith("kind ") for l in case):
        return sum(1 for o in impl if o.startswith("ok accept=")) >= 2
    return n_sig >= 2 and any(o.startswith("ok") and len(o) > 4 for o in loads)


def classify(case, impl, model, k):
    fmt = "?"
    for l in case[:k + 1]:
        w = l.split()
        if w and w[0] in ("zip", "dir", "sqldb", "sigfile", "sbt", "lca", "cat", "split", "collect", "sbtjson", "lcasql", "sbtresave"):
            fmt = w[0]
    op = case[k].split()[0] if k < len(case) and case[k].split() else "?"
    if op in ("kind", "conv", "sig"):
        return f"C10:corr:{op}"
    return f"C10:corr:{fmt}:{op}"
