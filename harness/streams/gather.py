"""The `gather` correspondence stream (C07): in-process gather runs.

One case = a query signature, 1..3 in-memory databases (LinearIndex) of 1..8 sketches with a
chosen overlap structure (nested / chained / tied / duplicate / covering / disjoint / partial),
a threshold (0 / on a boundary / large), a scaled relation (database finer / equal / coarser than
the query, or mixed), a mode (prefetch counters / on-demand Index.peek / both kinds in one run /
the CLI's ident-noident split) and the ignore-abundance switch; then `next` until the iterator stops.

Op language (one observation per line):
  sig <slot> <name> <md5> <scaled> <track> h:a ...      build a signature (md5 = decimal of the hex digest)
  db <slot> <sigslot> ...                                LinearIndex of these signatures, in this order
  cg <cslot> <dbslot> <qsig> <thr>                       db.counter_gather(query, threshold_bp)
  peek <cslot> <qsig> <thr>                              CounterGather.peek(query.minhash, threshold_bp=)
  consume <cslot> <sig>                                  CounterGather.consume(sig.minhash)
  split <identslot> <noidentslot> <qsig> <cslot> ...     commands.gather's ident / noident bookkeeping
  gd <qsig> <thr> <ignore_abund> <noident|-> <ident|-> c<k>|i<k> ...   GatherDatabases(...)
  next                                                   next(iterator)
"""
import hashlib
import math
import os
import struct
import sys
from fractions import Fraction

sys.path.insert(0, os.path.dirname(os.path.dirname(os.path.abspath(__file__))))
import common  # noqa: E402

U64 = 2 ** 64 - 1
MODULE = "gather"
ADAPTER = "gather_impl.py"
KSIZE = 21


def mh_for_scaled(s):
    if s == 0:
        return 0
    if s == 1:
        return U64
    return int(2.0 ** 64 / float(s))


def md5_of(hashes):
    h = hashlib.md5()
    h.update(str(KSIZE).encode())
    for m in sorted(hashes):
        h.update(str(m).encode())
    return int(h.hexdigest(), 16)


SCALED_TRIPLES = [(1, 2, 4), (2, 4, 8), (2, 3, 5), (3, 7, 10), (10, 100, 1000), (1, 3, 9), (4, 8, 16),
                  (100, 200, 1000), (2, 10, 11), (1000, 2000, 10000), (5, 10, 93)]


def sig_line(slot, name, scaled, hashes, abund=None):
    hs = sorted(hashes)
    M = mh_for_scaled(scaled)
    kept = [h for h in hs if h <= M]
    if abund is None:
        ps = " ".join(f"{h}:1" for h in hs)
        tr = 0
    else:
        ps = " ".join(f"{h}:{abund[h]}" for h in hs)
        tr = 1
    return f"sig {slot} {name} {md5_of(kept)} {scaled} {tr} {ps}".rstrip()


def universe(rng, scaleds, n):
    """n distinct hash values spread over the bands delimited by the thresholds of `scaleds`,
    biased to the boundaries M, M-1, M+1"""
    Ms = sorted(mh_for_scaled(s) for s in scaleds)      # ascending thresholds (coarsest first)
    top = Ms[-1]
    pool = set()
    for M in Ms:
        for d in (0, -1, 1, 2):
            v = M + d
            if 0 <= v <= top and rng.random() < 0.5:
                pool.add(v)
    bands = [(0, Ms[0])] + [(Ms[i] + 1, Ms[i + 1]) for i in range(len(Ms) - 1) if Ms[i] + 1 <= Ms[i + 1]]
    weights = [3] + [2] * (len(bands) - 1)
    while len(pool) < n:
        lo, hi = rng.choices(bands, weights)[0]
        r = rng.random()
        if r < 0.15:
            v = rng.randint(lo, min(hi, lo + 40))
        elif r < 0.3:
            v = rng.randint(max(lo, hi - 40), hi)
        else:
            v = rng.randint(lo, hi)
        pool.add(v)
    return sorted(pool)


def make_dbs(rng, Q, U, structure, ndb):
    """-> list of hash sets (database sketches before thresholding) according to `structure`"""
    Q = list(Q)
    rng.shuffle(Q)
    nonQ = [h for h in U if h not in set(Q)]
    out = []

    def extra(k):
        return rng.sample(nonQ, min(k, len(nonQ)))

    if structure == "nested":
        k = len(Q)
        for _ in range(ndb):
            out.append(set(Q[:k]) | set(extra(rng.randint(0, 3))))
            k = max(1, k - rng.randint(1, max(1, len(Q) // ndb)))
    elif structure == "chained":
        w = max(2, len(Q) // max(1, ndb - 1) + rng.randint(0, 3))
        step = max(1, w - rng.randint(1, max(1, w // 2)))
        for i in range(ndb):
            out.append(set(Q[i * step:i * step + w]) | set(extra(rng.randint(0, 2))))
    elif structure == "tied":
        w = rng.randint(1, max(1, len(Q) // 2))
        for _ in range(ndb):
            out.append(set(rng.sample(Q, w)) | set(extra(rng.randint(0, 2))))
    elif structure == "duplicate":
        base = set(rng.sample(Q, rng.randint(1, len(Q)))) | set(extra(rng.randint(0, 2)))
        for i in range(ndb):
            if i % 2 == 0 or rng.random() < 0.5:
                out.append(set(base))
            else:
                out.append(set(rng.sample(Q, rng.randint(1, len(Q)))))
    elif structure == "covering":
        out.append(set(Q) | set(extra(rng.randint(0, 5))))
        for _ in range(ndb - 1):
            out.append(set(rng.sample(Q, rng.randint(1, len(Q)))))
        rng.shuffle(out)
    elif structure == "disjoint":
        for _ in range(ndb):
            out.append(set(extra(rng.randint(1, 6))) or {Q[0]})
        if rng.random() < 0.6:
            out[rng.randrange(len(out))] |= set(rng.sample(Q, rng.randint(1, min(4, len(Q)))))
    else:   # random / partial
        for _ in range(ndb):
            out.append(set(rng.sample(Q, rng.randint(1, len(Q)))) | set(extra(rng.randint(0, 6))))
    return [s for s in out if s]


FLAVOURS = ["equal", "finer", "coarser", "mixed", "equal", "coarser", "cli", "peek", "boundary"]


def gen_boundary_case(rng, force_mode=None):
    """thresholds lying EXACTLY on the size of what is still unassigned: the query is cut into blocks of strictly
    decreasing size B_1 > B_2 > ... > B_k (plus, sometimes, hashes no sketch holds), sketch D_j holds block B_j
    (and noise), so greedy reports D_1, D_2, ... and the unassigned part before round r is B_{r+1} + ... + B_k;
    threshold_bp = (that size) * scaled for a round r (0 = the whole query, k-1 = the last block, which D_k covers
    completely), sometimes +-1.  Query at least as coarse as the database (no D6), every mode."""
    lines = []
    s1, s2, s3 = rng.choice(SCALED_TRIPLES)
    sq = rng.choice([s1, s2, s3])
    sd = sq if rng.random() < 0.7 else rng.choice([x for x in (s1, s2, s3) if x <= sq])
    M = mh_for_scaled(sq)
    Md = mh_for_scaled(sd)
    k = rng.choice([1, 1, 2, 2, 3, 4])
    sizes = sorted(rng.sample(range(1, 14), k), reverse=True)
    rest = rng.choice([0, 0, 0, 1, 3])              # query hashes no sketch holds
    need = sum(sizes) + rest
    pool = set()
    for d in (0, -1, -2):
        if M + d >= 1 and rng.random() < 0.5:
            pool.add(M + d)                          # hashes on the query's threshold
    while len(pool) < need + 12:
        pool.add(rng.randint(0, M))
    pool = sorted(pool)
    rng.shuffle(pool)
    blocks, at = [], 0
    for n in sizes:
        blocks.append(set(pool[at:at + n]))
        at += n
    unheld = set(pool[at:at + rest])
    at += rest
    noise_lo = pool[at:]
    Q = set().union(*blocks) | unheld
    track = rng.random() < 0.4
    abund = {h: rng.choice([1, 1, 2, 3, 7, 50]) for h in Q} if track else None
    lines.append(sig_line(0, 1000, sq, Q, abund))
    sk = []
    for j, B in enumerate(blocks):
        hs = set(B) | set(rng.sample(noise_lo, rng.randint(0, min(3, len(noise_lo)))))
        if Md > M and rng.random() < 0.5:
            hs |= {rng.randint(M + 1, Md) for _ in range(rng.randint(1, 3))}     # dropped when downsampled to sq
        if j > 0 and rng.random() < 0.3:
            hs |= set(rng.sample(sorted(blocks[j - 1]), 1))                       # overlaps an earlier block
        tr_ab = {h: rng.randint(1, 9) for h in hs} if rng.random() < 0.2 else None
        lines.append(sig_line(1 + j, 1 + j, sd, hs, tr_ab))
        sk.append(1 + j)
    if rng.random() < 0.4:                           # a decoy: a strict part of the last block
        B = sorted(blocks[-1])
        if len(B) > 1:
            lines.append(sig_line(1 + len(sk), 1 + len(sk), sd, set(B[:len(B) - 1])))
            sk.append(1 + len(sk))
    ndbs = rng.choice([1, 1, 2, 3])
    order = list(sk)
    rng.shuffle(order)
    parts = [p for p in (order[i::ndbs] for i in range(ndbs)) if p]
    for d, p in enumerate(parts):
        lines.append(f"db {d} " + " ".join(str(x) for x in p))
    nd = len(parts)
    r = rng.randrange(k)
    remaining = sum(sizes[r:]) + rest                # unassigned hashes before round r
    base = rng.choice([remaining, remaining, remaining, sizes[r]])
    thr = max(0, base * sq + rng.choice([0, 0, 0, 0, -1, 1]))
    ign = int(rng.random() < 0.35)
    mode = force_mode or rng.choice(["prefetch", "ondemand", "ondemand", "both", "cli"])
    cs = []
    for d in range(nd):
        kind = mode if mode != "both" else rng.choice(["prefetch", "ondemand"])
        if kind in ("prefetch", "cli"):
            lines.append(f"cg {d} {d} 0 {thr}")
            cs.append(f"c{d}")
        else:
            cs.append(f"i{d}")
    noid, ident = "-", "-"
    if mode == "cli":
        lines.append("split 60 61 0 " + " ".join(c[1:] for c in cs))
        noid, ident = "61", "60"
    lines.append(f"gd 0 {thr} {ign} {noid} {ident} " + " ".join(cs))
    for _ in range(len(sk) + 2):
        lines.append("next")
    return lines


FILE_KINDS = ["sig", "zip", "zipnm", "dir", "multi", "pl", "mf", "sbt", "sql", "lca"]


def gen_cli_case(rng, i):
    """a case for the in-process command-line slice of the quick tier and the options `sourmash gather` /
    `multigather` are run with (-> (case lines, opts)): prefetch and --no-prefetch, boundary thresholds, --scaled,
    abundance queries, -o, --save-matches, --output-unassigned, --save-prefetch, --create-empty-results,
    --linear / --no-linear, several collections of different kinds at once"""
    mode = ["cli", "ondemand"][i % 2]
    fl = ["equal", "boundary", "finer", "boundary", "finer", "coarser", "mixed", "equal"][i % 8]
    for _ in range(20):
        case = gen_boundary_case(rng, force_mode=mode) if fl == "boundary" else gen_case(rng, fl, force_mode=mode)
        sigs, dbs = parse_case(case)
        if any(dbs.values()):
            break
    thr = int(next(l for l in case if l.startswith("gd ")).split()[2])
    nod6 = thr == 0 or all(sg["scaled"] <= sigs[0]["scaled"] for k, sg in sigs.items() if 0 < k < 60)
    opts = {"save_matches": i % 2 == 0, "save_prefetch": i % 4 < 2, "create_empty": i % 3 != 0,
            "linear": [None, True, False][i % 3], "explicit_prefetch": i % 5 == 0,
            "save_prefetch_csv": i % 4 in (0, 3), "distract": [None, "k", None, "md5"][(i // 2) % 4],
            "picklist": nod6 and i % 3 == 2}
    if i % 3 == 1:
        kinds = {}
        for slot, members in dbs.items():
            if not members:
                continue
            flat = all(not sigs[m]["track"] for m in members)
            one_scaled = len({sigs[m]["scaled"] for m in members}) == 1
            ks = [x for x in FILE_KINDS if (x not in ("sql", "lca") or flat) and (x != "lca" or one_scaled)]
            kinds[str(slot)] = rng.choice(ks)
        opts["kinds"] = kinds
    q = sigs[0]
    opts["mg_add_md5"] = i % 4 == 0
    if mode == "cli" and i % 4 in (0, 2):
        # a second query against the same collections, for `multigather --query q1 q2`: part of the first query
        # plus a few hashes of the sketches (the command must not carry counters / noident over from query 1)
        gdl = next(l for l in case if l.startswith("gd ")).split()
        hs = dict(rng.sample(sorted(q["hashes"].items()), max(1, len(q["hashes"]) // 2)))
        others = sorted({h for k, sg in sigs.items() if 0 < k < 60 for h in sg["hashes"]} - set(hs))
        M = mh_for_scaled(q["scaled"])
        for h in rng.sample(others, min(len(others), 4)):
            if h <= M:
                hs[h] = rng.randint(1, 4)
        nd = len([l for l in case if l.startswith("cg ")])
        case = case + [sig_line(71, 1001, q["scaled"], set(hs), hs if q["track"] else None)]
        case += [f"cg {10 + d} {d} 71 {gdl[2]}" for d in range(nd)]
        case += ["split 62 63 71 " + " ".join(str(10 + d) for d in range(nd)),
                 f"gd 71 {gdl[2]} {gdl[3]} 63 62 " + " ".join(f"c{10 + d}" for d in range(nd))]
        case += ["next"] * (len([k for k in sigs if 0 < k < 60]) + 2)
    if i % 8 in (4, 7) and q["scaled"] > 1:       # (4: database finer than the query: --scaled coarser than every database)
        # `--scaled`: the file holds a finer copy of the query (scaled 1: the hashes plus some above the query's
        # threshold, which the command's downsampling must drop)
        M = mh_for_scaled(q["scaled"])
        extra = {rng.randint(M + 1, U64) for _ in range(rng.randint(1, 6))}
        hs = dict(q["hashes"])
        for h in extra:
            hs[h] = rng.randint(1, 5)
        case = case[:1] + [sig_line(70, 1000, 1, set(hs), hs if q["track"] else None)] + case[1:]
        opts["scaled"] = q["scaled"]
        opts["query_slot"] = 70
    return case, opts


def gen_case(rng, flavour, force_mode=None):
    if flavour == "boundary":
        return gen_boundary_case(rng, force_mode)
    lines = []
    s1, s2, s3 = rng.choice(SCALED_TRIPLES)
    if flavour in ("equal", "cli", "peek") and rng.random() < 0.8:
        sq = rng.choice([s1, s2, s3])
        db_scaleds = [sq]
    elif flavour == "finer":          # database finer than the query
        sq = rng.choice([s2, s3])
        db_scaleds = [s1 if sq == s2 or rng.random() < 0.5 else s2]
    elif flavour == "coarser":        # database coarser than the query
        sq = rng.choice([s1, s2])
        db_scaleds = [s3 if sq == s2 or rng.random() < 0.5 else s2]
    elif flavour == "mixed":
        sq = rng.choice([s1, s2, s3])
        db_scaleds = rng.sample([s1, s2, s3], rng.randint(2, 3))
    else:
        sq = s2
        db_scaleds = [rng.choice([s1, s2, s3])]
    all_scaled = sorted(set([sq] + db_scaleds))
    big = rng.random() < 0.15
    nq = rng.randint(5, 200 if big else 40)
    U = universe(rng, all_scaled, nq + rng.randint(5, 40))
    Mq = mh_for_scaled(sq)
    Uq = [h for h in U if h <= Mq]
    if len(Uq) < 3:   # degenerate universe (every hash above the query's threshold): add a few below it
        U = sorted(set(U) | {rng.randint(1, Mq) for _ in range(5)})
        Uq = [h for h in U if h <= Mq]
    # make sure some query hashes survive at the coarsest value in play
    Mc = mh_for_scaled(max(all_scaled))
    low = [h for h in Uq if h <= Mc]
    Q = set(rng.sample(Uq, min(nq, len(Uq))))
    if low and len([h for h in Q if h <= Mc]) < 3:
        Q |= set(rng.sample(low, min(len(low), 4)))
    track = rng.random() < 0.5
    abund = None
    if track:
        abund = {h: rng.choice([1, 1, 1, 2, 3, 5, 8, 20, 100, 1000]) for h in Q}
    lines.append(sig_line(0, 1000, sq, Q, abund))
    structure = rng.choice(["nested", "chained", "chained", "tied", "tied", "duplicate", "covering", "disjoint",
                            "random", "random", "random"])
    nsk = rng.randint(1, 8)
    sets = make_dbs(rng, Q, U, structure, nsk)
    sk = []           # (slot, name, scaled, set)
    for i, hs in enumerate(sets):
        sc = rng.choice(db_scaleds)
        tr_ab = None
        if rng.random() < 0.25:
            tr_ab = {h: rng.randint(1, 9) for h in hs}
        slot = 1 + i
        lines.append(sig_line(slot, 1 + i, sc, hs, tr_ab))
        sk.append(slot)
    ndbs = rng.choice([1, 1, 2, 3])
    order = list(sk)
    rng.shuffle(order)
    parts = [p for p in (order[i::ndbs] for i in range(ndbs)) if p]
    ndbs = len(parts)
    if structure == "duplicate" and ndbs > 1 and rng.random() < 0.5 and len(sk) >= 2:
        parts[-1].append(sk[0])                       # the same signature in two databases
    empty_db = rng.random() < 0.04
    if empty_db:
        parts.append([])                              # an empty database
    for d, p in enumerate(parts):
        lines.append(f"db {d} " + " ".join(str(x) for x in p))
    nd = len(parts)
    # threshold
    r = rng.random()
    sc_cmp = max([sq] + db_scaleds)
    if r < 0.35:
        thr = 0
    elif r < 0.75:
        ov = rng.randint(1, max(1, min(len(Q) // 3, 6)))
        thr = ov * rng.choice([sc_cmp, sc_cmp, sq]) + rng.choice([0, 0, -1, 1])
        thr = max(thr, 0)
    elif r < 0.93:
        thr = rng.randint(1, 3 * sc_cmp)
    else:
        thr = len(Q) * sq * rng.choice([1, 2]) + rng.choice([0, 1, sq])
    ign = int(rng.random() < 0.35)
    mode = rng.choice(["prefetch", "prefetch", "ondemand", "both"]) if flavour != "cli" else "cli"
    if force_mode is not None:
        mode = force_mode
    if flavour == "peek":
        # raw CounterGather histories: peek / consume with arbitrary sub-queries
        lines.append(f"cg 0 0 0 {thr}")
        sub = 20
        for k in range(rng.randint(2, 6)):
            hs = set(rng.sample(sorted(Q), rng.randint(1, len(Q))))
            if rng.random() < 0.15:
                hs |= set(rng.sample(U, 2))          # not a subset of the original query
            sc = sq if rng.random() < 0.7 else rng.choice(all_scaled)
            lines.append(sig_line(sub, 2000 + k, sc, hs))
            if rng.random() < 0.6:
                lines.append(f"peek 0 {sub} {rng.choice([0, thr, thr + 1])}")
            else:
                lines.append(f"consume 0 {sub}")
                lines.append(f"peek 0 {sub - 1 if k else sub} {thr}")
            sub += 1
        return lines
    cs = []
    for d in range(nd):
        kind = mode
        if mode == "both":
            kind = rng.choice(["prefetch", "ondemand"])
        if kind in ("prefetch", "cli"):
            lines.append(f"cg {d} {d} 0 {thr}")
            cs.append(f"c{d}")
        else:
            cs.append(f"i{d}")
    noid, ident = "-", "-"
    if mode == "cli":
        lines.append("split 60 61 0 " + " ".join(c[1:] for c in cs))
        noid, ident = "61", "60"
    lines.append(f"gd 0 {thr} {ign} {noid} {ident} " + " ".join(cs))
    for _ in range(len(sk) + 2):
        lines.append("next")
    return lines


# --------------------------------------------------------------------------
# comparison with tolerance on libm-dependent floats

def _bits_to_float(b):
    return struct.unpack("<d", struct.pack("<Q", int(b)))[0]


TOL = 1e-9


def strip_views(o):
    """drop the adapter's ` V=<tag>` annotation (a cross-check of the adapter failed; reported by the oracle)"""
    return " ".join(w for w in o.split(" ") if not w.startswith("V="))


VIEW_NOTES = {
    "counter:rejects-mutable-query:AttributeError":
        "Index.counter_gather(query, threshold_bp) raises AttributeError ('SourmashSignature' object has no attribute "
        "'update') for a mutable SourmashSignature; prefetch / search / best_containment / GatherDatabases accept one",
    "gatherresultdict-after-prefetchresultdict:md5":
        "reading GatherResult.prefetchresultdict truncates the result's md5 to 8 characters IN PLACE: a later "
        "gatherresultdict / write() of the same result carries the short md5 (two readers of one object, order matters)",
}


def view_violations(case, impl, prop):
    bad = []
    for idx, o in enumerate(impl):
        if " V=" in o:
            tag = o.split(" V=", 1)[1].split()[0]
            bad.append((idx, f"{prop}:views-disagree:{tag}",
                        VIEW_NOTES.get(tag, f"the adapter's cross-check `{tag}` failed at op `{case[idx][:60]}`")))
    return bad


def same(a, b):
    if " V=" in a:
        a = strip_views(a)
    if a == b:
        return True
    wa, wb = a.split(" "), b.split(" ")
    if len(wa) != len(wb):
        return False
    for x, y in zip(wa, wb):
        if x == y:
            continue
        if "~" in x and "~" in y:
            kx, _, vx = x.partition("~")
            ky, _, vy = y.partition("~")
            if kx != ky or vx == "-" or vy == "-":
                return False
            fx, fy = _bits_to_float(vx), _bits_to_float(vy)
            if fx == fy or abs(fx - fy) <= TOL * max(abs(fx), abs(fy), 1e-300):
                continue
            return False
        return False
    return True


# --------------------------------------------------------------------------
# property oracle (from the statement; Python sets; never looks at the model)

def canonF(x):
    """a non-negative double as <odd mantissa>p<exponent> (what F64.toStr / the adapter print)"""
    x = float(x)
    if x == 0:
        return "0p0"
    n, d = x.as_integer_ratio()
    e = 0
    if d == 1:
        while n % 2 == 0:
            n //= 2
            e += 1
    else:
        e = -(d.bit_length() - 1)
    return f"{n}p{e}"


def parse_F(tok):
    """'<m>p<e>' -> Fraction"""
    m, _, e = tok.partition("p")
    m, e = int(m), int(e)
    return Fraction(m) * (Fraction(2) ** e)


def float_frac(num, den):
    """the double nearest to num/den, as a Fraction (Python int/int is correctly rounded)"""
    return Fraction(num / den)


def parse_kv(line):
    d = {}
    for tok in line.split(" ")[1:]:
        if "=" in tok:
            k, _, v = tok.partition("=")
            d[k] = v
        elif "~" in tok:
            k, _, v = tok.partition("~")
            d[k] = None if v == "-" else _bits_to_float(v)
        elif tok.endswith("-"):
            d[tok[:-1]] = None
    return d


def ints(s):
    return [int(x) for x in s.split(",")] if s else []


def parse_case(case):
    """signature table and database table from the op lines"""
    sigs, dbs = {}, {}
    for l in case:
        w = l.split()
        if w[0] == "sig":
            slot, name, md5, scaled, track = int(w[1]), int(w[2]), int(w[3]), int(w[4]), int(w[5])
            ps = [(int(p.split(":")[0]), int(p.split(":")[1])) for p in w[6:]]
            M = mh_for_scaled(scaled)
            sigs[slot] = {"name": name, "md5": md5, "scaled": scaled, "track": bool(track),
                          "hashes": {h: a for h, a in ps if h <= M}}
        elif w[0] == "db":
            dbs[int(w[1])] = [int(x) for x in w[2:]]
    return sigs, dbs


def down(hs, scaled):
    M = mh_for_scaled(scaled)
    return {h for h in hs if h <= M}


def bias_bound(n_den, scaled):
    """relative upward deviation the documented de-biasing of `contained_by` can add: 1/(1-(1-1/s)^(n*s)) - 1"""
    if scaled == 1:
        return 0.0
    x = (1.0 - 1.0 / scaled) ** (n_den * scaled)
    return x / (1.0 - x) if x < 1 else float("inf")


D6_SIG = "C07:prefetch-threshold-converted-at-query-original-scaled:query-finer-than-db"


def d6_dropped(R, x, s, first):
    """is sketch x one that the statement makes eligible (overlap with the query, counted at the comparison
    scaled s, is >= threshold_bp) but that the code's threshold conversion rejects?  The code turns threshold_bp
    into a containment fraction with the query's ORIGINAL scaled and size and compares it with the containment
    measured after downsampling to s.  Applies to the prefetch pass (candidates are fixed once) and, in
    on-demand mode, to the first round only (later rounds query at s)."""
    q = R["q"]
    if not (q["scaled"] < s and R["thr"] > 0):
        return False
    if "i" in R["modes"] and R["modes"] == {"i"} and not first:
        return False
    q0s = down(q["hashes"], s)
    k0 = len(q0s & down(x["hashes"], s))
    if not q0s or k0 * s < R["thr"]:
        return False
    code_thr = (float(R["thr"]) / q["scaled"]) / len(q["hashes"])
    return k0 / len(q0s) < code_thr or code_thr > 1.0


def d6_admitted(R, x, s, first):
    """the opposite symptom of the same conversion: in on-demand mode the first round measures containment after
    downsampling but converts threshold_bp with the original scaled and size, so a sketch whose overlap is
    below threshold_bp can be accepted"""
    q = R["q"]
    if not (q["scaled"] < s and R["thr"] > 0 and first and "i" in R["modes"]):
        return False
    q0s = down(q["hashes"], s)
    k0 = len(q0s & down(x["hashes"], s))
    if not q0s or not k0 or k0 * s >= R["thr"]:
        return False
    code_thr = (float(R["thr"]) / q["scaled"]) / len(q["hashes"])
    return k0 / len(q0s) >= code_thr


def oracle(case, impl):
    """C07 clauses on the implementation's observations.  -> [(op_index, signature, message)]"""
    bad = view_violations(case, impl, "C07")
    impl = [strip_views(o) if " V=" in o else o for o in impl]
    sigs, dbs = parse_case(case)
    run = None
    for idx, (op, obs) in enumerate(zip(case, impl)):
        w = op.split()
        if obs.endswith(" L=ok"):
            obs = obs[:-5]
        if w[0] == "sig":
            d = parse_kv(obs) if obs.startswith("ok") else None
            if d is not None and int(d["n"]) != len(sigs[int(w[1])]["hashes"]):
                bad.append((idx, "C07:oracle-threshold-mismatch",
                            f"`{op[:60]}`: the sketch keeps {d['n']} hashes, the oracle's max_hash keeps "
                            f"{len(sigs[int(w[1])]['hashes'])}"))
            continue
        if w[0] == "gd":
            run = None
            if not obs.startswith("ok"):
                continue
            q = sigs[int(w[1])]
            thr, ign = int(w[2]), bool(int(w[3]))
            members = []
            for c in w[6:]:
                members += dbs[int(c[1:])]
            dsk = [sigs[m] for m in members]
            cli = w[4] != "-"
            modes = {c[0] for c in w[6:]}
            d = parse_kv(obs)
            run = {"q": q, "thr": thr, "ign": ign, "db": dsk, "cli": cli, "modes": modes,
                   "cur": set(ints(d["q"])), "cur_scaled": q["scaled"], "rounds": [], "U": [],
                   "swf": 0, "stopped": False, "start": idx}
            db_scaled = {s["scaled"] for s in dsk}
            run["one_scaled"] = len(db_scaled) <= 1
            run["sd"] = next(iter(db_scaled)) if len(db_scaled) == 1 else None
            if not cli and run["cur"] != set(q["hashes"]):
                bad.append((idx, "C07:init-query", "the initial unassigned set is not the query's hash set"))
            continue
        if w[0] != "next" or run is None or run["stopped"]:
            continue
        R = run
        q = R["q"]
        if obs.startswith("err") or obs == "dead":
            if R["one_scaled"]:
                bad.append((idx, "C07:gather-raises:" + obs.split()[-1],
                            f"gather raised {obs} on a database with one scaled value"))
            else:
                bad.append((idx, "C07:mixed-scaled-gather-raises:" + obs.split()[-1],
                            f"gather raised {obs} on a database mixing scaled values"))
            R["stopped"] = True
            continue
        d = parse_kv(obs)
        newq = set(ints(d["q"]))
        if obs.startswith("stop"):
            R["stopped"] = True
            if not R["one_scaled"]:
                continue
            s = max(R["cur_scaled"], R["sd"]) if R["db"] else R["cur_scaled"]
            cur = down(R["cur"], s)
            reach = [x for x in R["db"]
                     if len(cur & down(x["hashes"], s)) > 0 and len(cur & down(x["hashes"], s)) * s >= R["thr"]]
            if reach and cur:
                x = reach[0]
                sig = "C07:stops-early"
                if any(d6_dropped(R, y, s, first=not R["rounds"]) for y in reach):
                    sig = D6_SIG
                bad.append((idx, sig,
                            f"gather stopped although sketch {x['name']} still overlaps the unassigned hashes by "
                            f"{len(cur & down(x['hashes'], s)) * s} bp >= threshold {R['thr']} bp (scaled {s})"))
            continue
        # a reported round
        rank = len(R["rounds"])
        name = int(d["name"])
        cand = [x for x in R["db"] if x["name"] == name]
        if not cand:
            bad.append((idx, "C07:unknown-match", f"reported match {name} is not in the databases"))
            R["stopped"] = True
            continue
        D = cand[0]
        s = int(d["sc"])
        iu = set(ints(d["iu"]))
        io = set(ints(d["io"]))
        # --- clauses that hold for every database (mixed scaled included)
        for j, Uj in enumerate(R["U"]):
            if iu & Uj:
                bad.append((idx, "C07:unique-overlaps-intersect",
                            f"round {rank} and round {j} share {len(iu & Uj)} hashes"))
        R["U"].append(iu)
        R["rounds"].append(d)
        fu = parse_F(d["fu"])
        fw = parse_F(d["fw"])
        tot_fu = sum(parse_F(r["fu"]) for r in R["rounds"])
        # each summand is a rounded double: allow n ulps
        slack = Fraction(len(R["rounds"]), 2 ** 52)
        if tot_fu > 1 + slack:
            sig = "C07:fractions-sum-above-1" if R["one_scaled"] else "C07:mixed-scaled:fractions-sum-above-1"
            bad.append((idx, sig, f"f_unique_to_query sums to {float(tot_fu):.6f} > 1 after round {rank}"))
        for k, v in (("fu", fu), ("fw", fw), ("fo", parse_F(d["fo"]))):
            if v > 1 or v < 0:
                bad.append((idx, "C07:fraction-out-of-range:" + k, f"{k} = {float(v)}"))
        for k in ("fm", "fmo"):
            if d[k] is not None and not (0.0 <= d[k] <= 1.0):
                bad.append((idx, "C07:fraction-out-of-range:" + k, f"{k} = {d[k]}"))
        if int(d["rank"]) != rank:
            bad.append((idx, "C07:column:rank", f"gather_result_rank {d['rank']} in round {rank}"))
        if not R["one_scaled"]:
            R["cur"], R["cur_scaled"] = newq, s
            continue
        # --- databases at one scaled value: the full statement
        s_exp = max(q["scaled"], R["sd"])
        if s != s_exp:
            bad.append((idx, "C07:column:scaled", f"comparison scaled {s}, expected {s_exp}"))
            R["stopped"] = True
            continue
        cur = down(R["cur"], s)
        Dd = down(D["hashes"], s)
        ov = {x["name"]: len(cur & down(x["hashes"], s)) for x in R["db"]}
        best = max(ov.values())
        if iu != cur & Dd:
            bad.append((idx, "C07:unique-overlap-not-intersection",
                        "the reported unique intersection is not (unassigned hashes) & (match)"))
        if len(cur & Dd) != best:
            # sketches that beat the reported one AND reach threshold_bp (a sketch below the threshold is not
            # eligible; if the reported one is itself below it, that is the below-threshold clause's business)
            better = [x for x in R["db"] if ov[x["name"]] > len(cur & Dd) and ov[x["name"]] * s >= R["thr"]]
            sig = "C07:not-maximal"
            if all(d6_dropped(R, y, s, first=(rank == 0)) for y in better):
                sig = D6_SIG
            if better:
                bad.append((idx, sig,
                            f"reported {name} overlaps {len(cur & Dd)} unassigned hashes, the maximum is {best}"))
        if len(cur & Dd) * s < R["thr"] or not (cur & Dd):
            sig = "C07:below-threshold"
            if d6_admitted(R, D, s, first=(rank == 0)):
                sig = D6_SIG
            bad.append((idx, sig,
                        f"reported overlap {len(cur & Dd) * s} bp < threshold {R['thr']} bp"))
        if newq != cur - Dd:
            bad.append((idx, "C07:removal-not-exact", "next unassigned set is not (current) minus (match)"))
        # columns
        q0 = down(q["hashes"], s)
        N = len(q0)
        ab = (lambda h: q["hashes"][h]) if (q["track"] and not R["ign"]) else (lambda h: 1)
        exp = {
            "ibp": len(q0 & Dd) * s,
            "ubp": len(iu) * s,
            "qn": N,
            "swf": sum(ab(h) for h in set().union(*R["U"])),
            "twh": sum(ab(h) for h in q0),
        }
        for k, v in exp.items():
            if int(d[k]) != v:
                bad.append((idx, "C07:column:" + k, f"{k} = {d[k]}, definition gives {v}"))
        if io != q0 & Dd:
            bad.append((idx, "C07:column:intersect-set", "intersect_mh is not (query) & (match)"))
        # remaining_bp: original query hashes (at this resolution) not assigned to any reported match
        rem_exp = len(q0 - set().union(*R["U"])) * s
        if int(d["rem"]) != rem_exp:
            bad.append((idx, "C07:column:remaining_bp", f"remaining_bp = {d['rem']}, definition gives {rem_exp}"))
        if N:
            for k, num in (("fo", len(q0 & Dd)), ("fu", len(iu))):
                if parse_F(d[k]) != float_frac(num, N):
                    bad.append((idx, "C07:column:" + k, f"{k} = {float(parse_F(d[k]))}, definition gives {num}/{N}"))
        if q["track"] and not R["ign"]:
            vals = [q["hashes"][h] for h in sorted(iu)]
            nuw = sum(vals)
            if d["nuw"] == "-" or int(d["nuw"]) != nuw:
                bad.append((idx, "C07:column:n_unique_weighted_found", f"{d['nuw']} vs {nuw}"))
            if exp["twh"] and parse_F(d["fw"]) != float_frac(nuw, exp["twh"]):
                bad.append((idx, "C07:column:f_unique_weighted",
                            f"{float(parse_F(d['fw']))} vs {nuw}/{exp['twh']}"))
            if vals:
                if parse_F(d["avg"]) != float_frac(nuw, len(vals)):
                    bad.append((idx, "C07:column:average_abund", f"{float(parse_F(d['avg']))} vs {nuw}/{len(vals)}"))
                sv = sorted(vals)
                n = len(sv)
                med = Fraction(sv[n // 2]) if n % 2 else Fraction(sv[n // 2 - 1] + sv[n // 2], 2)
                if parse_F(d["med"]) != med:
                    bad.append((idx, "C07:column:median_abund", f"{float(parse_F(d['med']))} vs {float(med)}"))
                mean = nuw / n
                std = math.sqrt(sum((v - mean) ** 2 for v in vals) / n)
                if d["std"] is None or abs(d["std"] - std) > 1e-9 * max(1.0, std):
                    bad.append((idx, "C07:column:std_abund", f"{d['std']} vs {std}"))
        else:
            if d["nuw"] != "-" or d["avg"] != "-" or d["med"] != "-" or d["std"] is not None:
                bad.append((idx, "C07:column:abundance-columns-without-abundance", "abundance columns set"))
            if parse_F(d["fw"]) != parse_F(d["fu"]):
                bad.append((idx, "C07:column:f_unique_weighted", "differs from f_unique_to_query without abundances"))
        # f_match: |U| / |D|  (the code de-biases the denominator: documented, bounded)
        if Dd:
            want = len(iu) / len(Dd)
            got = d["fm"]
            if got != want:
                bb = bias_bound(len(Dd), s)
                if got is not None and want <= got <= min(1.0, want * (1 + bb) * (1 + 1e-12)):
                    bad.append((idx, "C07:f_match-debiased",
                                f"f_match = {got!r}, |U|/|D| = {len(iu)}/{len(Dd)} = {want!r} "
                                f"(contained_by divides by the bias factor 1-(1-1/scaled)^(|D|*scaled))"))
                else:
                    bad.append((idx, "C07:column:f_match", f"f_match = {got!r}, |U|/|D| = {want!r}"))
        R["cur"], R["cur_scaled"] = newq, s
    return bad


def post_model(lines):
    return lines


def classify(case, impl, model, k):
    """signature of a correspondence disagreement"""
    op = case[k].split()[0] if k < len(case) and case[k].split() else "?"
    if k < len(impl) and " V=" in impl[k]:
        # the adapter's own cross-checks: two routes to the same information disagree / an earlier result changed
        return "C07:views-disagree:" + impl[k].split(" V=", 1)[1].split()[0]
    if k < len(model) and "L=DIFF" in model[k]:
        return f"C07:corr:list-sketch-instance-differs:{op}"
    return f"C07:corr:{op}"


def nontrivial(case, impl):
    """a gather run that reported >= 2 rounds, or a peek history with >= 2 results"""
    n = sum(1 for op, o in zip(case, impl) if op.startswith("next") and o.startswith("ok "))
    m = sum(1 for op, o in zip(case, impl) if op.startswith("peek") and o.startswith("ok name"))
    return n >= 2 or m >= 2
